----------------------------- MODULE Lit -----------------------------
(***************************************************************************)
(* Literals: what a spelling denotes.                                      *)
(*                                                                         *)
(* Text is modelled as sequences of Unicode code points (TLA+ strings are  *)
(* ASCII only); Cp("abc") converts an ASCII string.  Three families:       *)
(*                                                                         *)
(*  integers  spelling = decimal digits with `_` between digits, possibly  *)
(*            negated.  Value = the decimal number (as a canonical decimal *)
(*            string: 64-bit values do not fit TLC integers); in range iff *)
(*            -2^63 <= value <= 2^63-1, otherwise a diagnostic is due.     *)
(*  floats    digits "." digits (with `_`, possibly negated) restricted to *)
(*            spellings of dyadic rationals n/2^e, for which "nearest      *)
(*            binary64" is exact: FloatBits gives the IEEE-754 bit pattern *)
(*            as a decimal string.                                         *)
(*  strings   value = code point sequence; Spell(v, form, style) for the    *)
(*            forms "..." '...' and """...""" on one line; TripleValue for  *)
(*            multi-line """ literals (indentation stripping).             *)
(***************************************************************************)
EXTENDS Naturals, Integers, Sequences, FiniteSets, TLC

\* ---------------------------------------------------------------- code points
Printable == " !\"#$%&'()*+,-./0123456789:;<=>?@ABCDEFGHIJKLMNOPQRSTUVWXYZ[\\]^_`abcdefghijklmnopqrstuvwxyz{|}~"
Chars == {SubSeq(Printable, i, i) : i \in 1..Len(Printable)} \cup {"\n", "\t", "\r"}
Code == [c \in Chars |-> IF c = "\n" THEN 10 ELSE IF c = "\t" THEN 9 ELSE IF c = "\r" THEN 13
                         ELSE 31 + CHOOSE i \in 1..Len(Printable) : SubSeq(Printable, i, i) = c]
Cp(s) == [i \in 1..Len(s) |-> Code[SubSeq(s, i, i)]]
LF == 10   TAB == 9   CR == 13   SP == 32   DQ == 34   SQ == 39   BS == 92

RECURSIVE Flat(_)
Flat(ss) == IF ss = <<>> THEN <<>> ELSE ss[1] \o Flat(Tail(ss))
RECURSIVE JoinCp(_, _)
JoinCp(ss, sep) == IF ss = <<>> THEN <<>> ELSE IF Len(ss) = 1 THEN ss[1] ELSE ss[1] \o sep \o JoinCp(Tail(ss), sep)

\* ---------------------------------------------------------------- decimal numbers as digit sequences (least significant first)
RECURSIVE DecOfNat(_)
DecOfNat(x) == IF x < 10 THEN <<x>> ELSE <<x % 10>> \o DecOfNat(x \div 10)
RECURSIVE DecDoubleC(_, _)
DecDoubleC(d, carry) == IF d = <<>> THEN (IF carry = 0 THEN <<>> ELSE <<carry>>)
                        ELSE LET x == 2 * d[1] + carry IN <<x % 10>> \o DecDoubleC(Tail(d), x \div 10)
DecDouble(d) == DecDoubleC(d, 0)
RECURSIVE DecShl(_, _)
DecShl(d, k) == IF k = 0 THEN d ELSE DecShl(DecDouble(d), k - 1)          \* d * 2^k
RECURSIVE DecAddC(_, _, _)
DecAddC(a, b, carry) ==
  IF a = <<>> /\ b = <<>> THEN (IF carry = 0 THEN <<>> ELSE <<carry>>)
  ELSE LET x == (IF a = <<>> THEN 0 ELSE a[1]) + (IF b = <<>> THEN 0 ELSE b[1]) + carry
       IN <<x % 10>> \o DecAddC(IF a = <<>> THEN <<>> ELSE Tail(a), IF b = <<>> THEN <<>> ELSE Tail(b), x \div 10)
DecAdd(a, b) == DecAddC(a, b, 0)
RECURSIVE DecStrR(_)
DecStrR(d) == IF d = <<>> THEN "" ELSE DecStrR(Tail(d)) \o ToString(d[1])
DecStr(d) == DecStrR(d)
Pow2Dec(k) == DecShl(<<1>>, k)

\* ---------------------------------------------------------------- integer literals
\* a spelling: digits (ASCII string of decimal digits), us (set of positions i such that a `_` follows digit i,
\* 1 <= i < Len), neg
RECURSIVE WithUs(_, _, _)
WithUs(ds, us, i) == IF i > Len(ds) THEN ""
                     ELSE SubSeq(ds, i, i) \o (IF i \in us THEN "_" ELSE "") \o WithUs(ds, us, i + 1)
SpellInt(sp) == (IF sp.neg THEN "-" ELSE "") \o WithUs(sp.digits, sp.us, 1)

RECURSIVE StripZeros(_)
StripZeros(ds) == IF Len(ds) > 1 /\ SubSeq(ds, 1, 1) = "0" THEN StripZeros(SubSeq(ds, 2, Len(ds))) ELSE ds
DigitOf(c) == Code[c] - 48
\* compare two canonical (no leading zeros) digit strings: -1, 0, 1
RECURSIVE LexCmp(_, _, _)
LexCmp(a, b, i) == IF i > Len(a) THEN 0
                   ELSE IF DigitOf(SubSeq(a, i, i)) < DigitOf(SubSeq(b, i, i)) THEN -1
                   ELSE IF DigitOf(SubSeq(a, i, i)) > DigitOf(SubSeq(b, i, i)) THEN 1
                   ELSE LexCmp(a, b, i + 1)
MagCmp(a, b) == IF Len(a) < Len(b) THEN -1 ELSE IF Len(a) > Len(b) THEN 1 ELSE LexCmp(a, b, 1)

Two63 == DecStr(Pow2Dec(63))                  \* "9223372036854775808"
\* magnitude m (canonical digits) is in range:  m <= 2^63 - 1, or m <= 2^63 when negated
IntInRange(sp) == LET m == StripZeros(sp.digits) IN
                  IF sp.neg THEN MagCmp(m, Two63) <= 0 ELSE MagCmp(m, Two63) < 0
\* the value as the canonical decimal string (what i64::to_string prints)
IntValue(sp) == LET m == StripZeros(sp.digits) IN IF sp.neg /\ m # "0" THEN "-" \o m ELSE m

\* ---------------------------------------------------------------- float literals (dyadic rationals only)
RECURSIVE P2(_)
P2(k) == IF k = 0 THEN 1 ELSE 2 * P2(k - 1)
RECURSIVE P5(_)
P5(k) == IF k = 0 THEN 1 ELSE 5 * P5(k - 1)
RECURSIVE Log2(_)
Log2(n) == IF n < 2 THEN 0 ELSE 1 + Log2(n \div 2)
RECURSIVE PadDigits(_, _)
PadDigits(n, k) == IF k = 0 THEN "" ELSE PadDigits(n \div 10, k - 1) \o ToString(n % 10)
\* exact decimal expansion of n / 2^e  (n < 2^20, e <= 9: everything stays below 2^31): integer part and exactly e
\* fraction digits
FloatDigits(n, e) == [ip |-> ToString(n \div P2(e)), fp |-> PadDigits((n % P2(e)) * P5(e), e)]
\* a spelling: ip, fp (digit strings, fp may carry extra trailing zeros, ip extra leading zeros), ius/fus (`_`
\* positions as for integers), neg
SpellFloat(sp) == (IF sp.neg THEN "-" ELSE "") \o WithUs(sp.ip, sp.ius, 1) \o "." \o WithUs(sp.fp, sp.fus, 1)
\* IEEE-754 binary64 bit pattern of (-1)^neg * n / 2^e as a decimal string (n < 2^20)
FloatBits(neg, n, e) ==
  LET mag == IF n = 0 THEN <<0>>
             ELSE LET k == Log2(n)                                 \* n = 1.f * 2^k
                      biased == 1023 + k - e
                  IN DecShl(DecOfNat((biased - 1) * P2(k) + n), 52 - k)    \* biased*2^52 + (n - 2^k)*2^(52-k)
  IN DecStr(IF neg THEN DecAdd(mag, Pow2Dec(63)) ELSE mag)
InfBits == DecStr(DecShl(DecOfNat(2047), 52))

\* ---------------------------------------------------------------- string literals on one line
\* escape sequences understood inside every string form
EscOf(c) == IF c = LF THEN Cp("\\n") ELSE IF c = TAB THEN Cp("\\t") ELSE IF c = CR THEN Cp("\\r")
            ELSE IF c = DQ THEN Cp("\\\"") ELSE IF c = SQ THEN Cp("\\'") ELSE IF c = BS THEN Cp("\\\\")
            ELSE IF c = 1 THEN Cp("\\x01") ELSE IF c = 127 THEN Cp("\\x7f") ELSE <<>>
HasEsc(c) == EscOf(c) # <<>>
\* may c be written as itself inside the form?  (a raw line feed would start a new source line: not used in the
\* one-line forms; control characters are always escaped)
RawOk(c, form) == /\ c \notin {BS, LF, CR, 1, 127}
                  /\ (form = "dq" => c # DQ)
                  /\ (form = "sq" => c # SQ)
\* style "min": written raw wherever possible; "max": escaped wherever an escape exists
SpellChar(c, form, style) == IF HasEsc(c) /\ (style = "max" \/ ~RawOk(c, form)) THEN EscOf(c) ELSE <<c>>
Body(v, form, style) == Flat([i \in 1..Len(v) |-> SpellChar(v[i], form, style)])
Delim(form) == IF form = "dq" THEN <<DQ>> ELSE IF form = "sq" THEN <<SQ>> ELSE <<DQ, DQ, DQ>>
IsWs(line) == \A i \in 1..Len(line) : line[i] \in {SP, TAB}
HasTriple(b) == \E i \in 1..(Len(b) - 2) : b[i] = DQ /\ b[i + 1] = DQ /\ b[i + 2] = DQ
\* can the value be written in this form?  In the """ form on one line the text must not end in a raw quote, must
\* not contain """ and must not be blank (a blank first line belongs to the multi-line layout rules)
CanSpell(v, form, style) ==
  LET b == Body(v, form, style) IN
  form = "tq" => /\ ~IsWs(b)
                 /\ ~HasTriple(b)
                 /\ b[Len(b)] # DQ
Spell(v, form, style) == Delim(form) \o Body(v, form, style) \o Delim(form)

\* ---------------------------------------------------------------- multi-line """ literals
\* A layout:  opener  = <<>> (line break directly after the opening """) or the elements written after it;
\*            mids    = the following source lines, each [ws |-> leading blanks/tabs, els |-> elements]
\*                      (els = <<>>: a blank line; otherwise the first element is not a raw blank/tab);
\*            closer  = [own |-> TRUE, ws |-> indentation in front of the closing """] (on its own line)
\*                      or [own |-> FALSE] (directly after the last line's text).
\* An element is [raw |-> code points written, val |-> code points denoted].
RawEl(c) == [raw |-> <<c>>, val |-> <<c>>]
EscEl(c) == [raw |-> EscOf(c), val |-> <<c>>]
ElsRaw(els) == Flat([i \in 1..Len(els) |-> els[i].raw])
ElsVal(els) == Flat([i \in 1..Len(els) |-> els[i].val])

TripleText(lay) ==
  <<DQ, DQ, DQ>> \o ElsRaw(lay.opener)
  \o Flat([i \in 1..Len(lay.mids) |-> <<LF>> \o lay.mids[i].ws \o ElsRaw(lay.mids[i].els)])
  \o (IF lay.closer.own THEN <<LF>> \o lay.closer.ws ELSE <<>>) \o <<DQ, DQ, DQ>>

IsPrefix(a, b) == Len(a) <= Len(b) /\ SubSeq(b, 1, Len(a)) = a
NonBlank(lay) == {i \in 1..Len(lay.mids) : lay.mids[i].els # <<>>}
\* the common indentation: the longest whitespace prefix shared by all non-blank lines after the opener line
CommonIndent(lay) ==
  IF NonBlank(lay) = {} THEN <<>>
  ELSE LET i0 == CHOOSE i \in NonBlank(lay) : \A j \in NonBlank(lay) : Len(lay.mids[i].ws) <= Len(lay.mids[j].ws)
       IN lay.mids[i0].ws
\* The model only speaks about layouts on which every reasonable reading of "strip the common indentation" agrees:
\*  - the indentations of the non-blank lines are prefixes of one another (so the shortest one is the common one),
\*  - blank lines carry at most (a prefix of) the common indentation,
\*  - a closing delimiter on its own line is indented exactly like the text,
\*  - there is at least one non-blank line or opener text, no """ inside, text in front of an inline closer does
\*    not end in a raw quote.
LayoutInModel(lay) ==
  LET C == CommonIndent(lay)
      lastRaw == IF lay.mids = <<>> THEN ElsRaw(lay.opener) ELSE ElsRaw(lay.mids[Len(lay.mids)].els)
  IN /\ \A i \in NonBlank(lay) : IsPrefix(C, lay.mids[i].ws)
     /\ \A i \in (1..Len(lay.mids)) \ NonBlank(lay) : IsPrefix(lay.mids[i].ws, C)
     /\ lay.closer.own => lay.closer.ws = C
     /\ lay.mids # <<>>
     /\ (NonBlank(lay) # {} \/ lay.opener # <<>>)
     /\ (~lay.closer.own => (lastRaw # <<>> /\ lastRaw[Len(lastRaw)] # DQ /\ ~IsWs(lastRaw)))
     /\ (lay.opener # <<>> => ~IsWs(ElsRaw(lay.opener)))
     /\ ~HasTriple(ElsRaw(lay.opener))
     /\ \A i \in 1..Len(lay.mids) : ~HasTriple(ElsRaw(lay.mids[i].els))
\* the value: text after the opener (verbatim), then every following line without the common indentation, joined by
\* line feeds; the line that only holds the closing delimiter is not part of the text
TripleValue(lay) ==
  LET C == CommonIndent(lay)
      lineVal(m) == IF m.els = <<>> THEN <<>> ELSE SubSeq(m.ws, Len(C) + 1, Len(m.ws)) \o ElsVal(m.els)
      ls == (IF lay.opener = <<>> THEN <<>> ELSE <<ElsVal(lay.opener)>>) \o [i \in 1..Len(lay.mids) |-> lineVal(lay.mids[i])]
  IN JoinCp(ls, <<LF>>)

\* ---- the known deviations of the implementation, used only to attribute a mismatch to a known family:
\*  (T) indentation is measured in columns with a tab counting 4, but removed as that many *characters*;
\*  (L) blank lines directly after an opener line break are dropped.
\* Both act on the raw text, escapes are processed afterwards (an escape cut in half by (T) may then be rejected).
Cols(ws) == IF ws = <<>> THEN 0 ELSE Len(SelectSeq(ws, LAMBDA c : c = SP)) + 4 * Len(SelectSeq(ws, LAMBDA c : c = TAB))
RECURSIVE DropLeadingBlank(_)
DropLeadingBlank(ms) == IF ms # <<>> /\ ms[1].els = <<>> THEN DropLeadingBlank(Tail(ms)) ELSE ms
Min2(a, b) == IF a < b THEN a ELSE b
HexDigit(c) == IF c >= 48 /\ c <= 57 THEN c - 48 ELSE IF c >= 97 /\ c <= 102 THEN c - 87 ELSE IF c >= 65 /\ c <= 70 THEN c - 55 ELSE -1
\* escape processing as implemented: [ok, v]; ok = FALSE: an unrecognised escape sequence is reported
RECURSIVE Unescape(_, _, _)
Unescape(t, i, acc) ==
  IF i > Len(t) THEN [ok |-> TRUE, v |-> acc]
  ELSE IF t[i] # BS \/ i = Len(t) THEN Unescape(t, i + 1, Append(acc, t[i]))
  ELSE LET d == t[i + 1] IN
       IF d = 110 THEN Unescape(t, i + 2, Append(acc, LF))
       ELSE IF d = 116 THEN Unescape(t, i + 2, Append(acc, TAB))
       ELSE IF d = 114 THEN Unescape(t, i + 2, Append(acc, CR))
       ELSE IF d \in {DQ, SQ, BS} THEN Unescape(t, i + 2, Append(acc, d))
       ELSE IF d = 120 /\ i + 3 <= Len(t) /\ HexDigit(t[i + 2]) >= 0 /\ HexDigit(t[i + 3]) >= 0
            THEN Unescape(t, i + 4, Append(acc, 16 * HexDigit(t[i + 2]) + HexDigit(t[i + 3])))
       ELSE [ok |-> FALSE, v |-> <<>>]
DevTripleValue(lay) ==
  LET ms == IF lay.opener = <<>> THEN DropLeadingBlank(lay.mids) ELSE lay.mids
      nb == {i \in 1..Len(ms) : ms[i].els # <<>>}
      ind == IF nb = {} THEN 0
             ELSE LET i0 == CHOOSE i \in nb : \A j \in nb : Cols(ms[i].ws) <= Cols(ms[j].ws) IN Cols(ms[i0].ws)
      rawLine(m) == m.ws \o ElsRaw(m.els)
      lineVal(m) == LET r == rawLine(m) IN SubSeq(r, Min2(ind, Len(r)) + 1, Len(r))
      ls == (IF lay.opener = <<>> THEN <<>> ELSE <<ElsRaw(lay.opener)>>) \o [i \in 1..Len(ms) |-> lineVal(ms[i])]
  IN Unescape(JoinCp(ls, <<LF>>), 1, <<>>)
TabInIndent(lay) == \E i \in 1..Len(CommonIndent(lay)) : CommonIndent(lay)[i] = TAB
LeadingBlank(lay) == lay.opener = <<>> /\ lay.mids # <<>> /\ lay.mids[1].els = <<>>
=============================================================================
