----------------------------- MODULE MatchEnum -----------------------------
(***************************************************************************)
(* State machine whose states are the generated files (batches of K        *)
(* matches) of MatchCases.                                                 *)
(*   MODE = enum: model checking mode; the states are the batches of the   *)
(*                exhaustive numbering (of shard SHARD of NSHARD), walked  *)
(*                in NCHAIN interleaved chains so that NCHAIN TLC workers  *)
(*                can share the work; distinct states = files + NCHAIN.    *)
(*   MODE = sim:  tlc -simulate -depth 2 -seed S; every behaviour is one   *)
(*                batch of K sampled arm lists (length 2..5, depth-2       *)
(*                pools, or-patterns with and without names).             *)
(* The invariant Emit writes the case (file text, line table, expected     *)
(* verdicts, calls) of every reached state to OUTDIR/<id>.json.            *)
(***************************************************************************)
EXTENDS MatchCases
CONSTANT Prop            \* "C12" | "C13" | "C14": C13 needs no run-time calls
VARIABLES b, ch, batch

Shard == StrToNat(IOEnv.SHARD)
NShard == StrToNat(IOEnv.NSHARD)
NChain == StrToNat(IOEnv.NCHAIN)
WantCalls == Prop # "C13" /\ IOEnv.CALLS = "1"

Init == b = -1 /\ batch = <<>> /\ ch \in (IF Sim THEN {0} ELSE 0..(NChain - 1))
Next == /\ ch' = ch
        /\ IF Sim
           THEN b = -1 /\ b' = 0 /\ batch' = RandBatch(0)
           ELSE LET nb == IF b = -1 THEN Shard * NChain + ch ELSE b + NShard * NChain
                IN nb < NBatches /\ b' = nb /\ batch' = BatchAt(nb)
Emit == b # -1 =>
  LET id == IF Sim THEN "s" \o ToString(TLCGet("stats").traces) ELSE "b" \o ToString(b)
  IN JsonSerialize(IOEnv.OUTDIR \o "/" \o id \o ".json", BatchCase(id, batch, WantCalls))
\* universe sizes, printed once (evidence)
Sizes == PrintT(<<"SIZES", ToJson([total |-> Total, batches |-> NBatches,
            types |-> [ti \in 1..NT |-> [n |-> TyU[ti].n, pats |-> Len(Pool[ti]), values |-> Cardinality(Vals[ti]),
                                         maxlen |-> MaxLen(ti), rich |-> Len(RichPool[ti])]]])>>)
=============================================================================
