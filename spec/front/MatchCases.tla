----------------------------- MODULE MatchCases -----------------------------
(***************************************************************************)
(* The bounded universe of C12 / C13 / C14 and the programs that exercise  *)
(* it.  Meaning of patterns: AbraMatch.  This module fixes                 *)
(*   - the type universe TyU,                                              *)
(*   - per tier the literal pools and the pattern pool Pool[ti]            *)
(*     (Pats(ty, depth)), and the arm-list lengths enumerated exhaustively *)
(*     for each type (all lists of length <= 1, of length 2 / 3 while the  *)
(*     number of lists stays below Cap2 / Cap3),                           *)
(*   - the numbering of all those lists (global index g), batches of K     *)
(*     lists per generated file,                                           *)
(*   - the generated text: one function per match (`fn m<g>(s: T) ->       *)
(*     string` whose arm i evaluates to "<g>:<i>:<x1>:<x2>..."), its line  *)
(*     and the lines of its arms in the batch file, one call per value of  *)
(*     Values(ty) with the admissible printed lines,                       *)
(*   - the expected verdicts: exhaustive, redundant arms, first arm and    *)
(*     bindings, and the defect-family keys.                               *)
(* Environment: TIER (quick|thorough), MODE (enum|sim), SHARD, NSHARD,     *)
(* NCHAIN, CALLS (0|1), OUTDIR.                                            *)
(***************************************************************************)
EXTENDS AbraMatch, Integers, SequencesExt, Json, IOUtils, TLCExt

Thorough == IOEnv.TIER = "thorough"
K == 40                                   \* matches per generated file

\* ------------------------------------------------------------- type universe
Color == Enum("Color", "Color", FALSE, << Variant("Red", FALSE, <<>>), Variant("Green", FALSE, <<>>), Variant("Blue", FALSE, <<>>) >>)
Shape == Enum("Shape", "Shape", FALSE, << Variant("Va", FALSE, <<>>), Variant("Vb", FALSE, <<Fld("", Bool)>>),
                                          Variant("Vc", FALSE, <<Fld("", Bool), Fld("", IntT)>>) >>)
Nm == Enum("Nm", "Nm", FALSE, << Variant("Rgb", TRUE, <<Fld("red", Bool), Fld("green", IntT)>>),
                                 Variant("Named", TRUE, <<Fld("flag", Bool)>>), Variant("Unit", FALSE, <<>>) >>)
Ev == Enum("Ev", "Ev", FALSE, << Variant("Ea", FALSE, <<Fld("", Void)>>), Variant("Eb", FALSE, <<>>) >>)
\* a variant with several declared fields of which only one is stored (void fields occupy no slot)
Mv == Enum("Mv", "Mv", FALSE, << Variant("Ma", FALSE, <<Fld("", Bool), Fld("", Void)>>), Variant("Mb", FALSE, <<>>) >>)
Pt == Struct("Pt", <<Fld("px", IntT), Fld("py", Bool)>>)
OptB == OptionOf(Bool, "option<bool>")
Wr == Struct("Wr", <<Fld("wo", OptB), Fld("wv", Void)>>)
ResBI == ResultOf(Bool, IntT, "result<bool, int>")
OptBB == OptionOf(Tup(<<Bool, Bool>>), "option<(bool, bool)>")
OptOptB == OptionOf(OptB, "option<option<bool>>")
OptColor == OptionOf(Color, "option<Color>")
\* a generic enum instantiated with void: the payload of `some` occupies no column and no slot
OptV == OptionOf(Void, "option<void>")
ResVI == ResultOf(Void, IntT, "result<void, int>")

TyU == << [n |-> "bool", ty |-> Bool], [n |-> "void", ty |-> Void], [n |-> "int", ty |-> IntT],
          [n |-> "float", ty |-> FltT], [n |-> "string", ty |-> StrT],
          [n |-> "bool_bool", ty |-> Tup(<<Bool, Bool>>)], [n |-> "bool_void_bool", ty |-> Tup(<<Bool, Void, Bool>>)],
          [n |-> "Color", ty |-> Color], [n |-> "Shape", ty |-> Shape], [n |-> "Nm", ty |-> Nm], [n |-> "Ev", ty |-> Ev],
          [n |-> "Pt", ty |-> Pt], [n |-> "Wr", ty |-> Wr],
          [n |-> "optbool", ty |-> OptB], [n |-> "resboolint", ty |-> ResBI], [n |-> "optboolbool", ty |-> OptBB],
          [n |-> "optoptbool", ty |-> OptOptB],
          [n |-> "optbool_bool", ty |-> Tup(<<OptB, Bool>>)], [n |-> "Shape_float", ty |-> Tup(<<Shape, FltT>>)],
          [n |-> "boolbool_bool", ty |-> Tup(<<Tup(<<Bool, Bool>>), Bool>>)], [n |-> "string_int", ty |-> Tup(<<StrT, IntT>>)],
          [n |-> "Color_Color", ty |-> Tup(<<Color, Color>>)],
          \* a void payload followed by another column
          [n |-> "Ev_bool", ty |-> Tup(<<Ev, Bool>>)], [n |-> "Mv", ty |-> Mv],
          [n |-> "optvoid", ty |-> OptV], [n |-> "resvoidint", ty |-> ResVI] >>
NT == Len(TyU)
UserTys == <<Color, Shape, Nm, Ev, Pt, Wr, Mv>>
Header == FlatS([i \in 1..Len(UserTys) |-> TypeDecl(UserTys[i]) \o ShowDecl(UserTys[i])])

\* ------------------------------------------------------------- tier parameters
Prof == IF Thorough
        THEN [int |-> <<"0", "1", "01">>, float |-> <<"1.0", "1.00", "2.5", "2.51">>, string |-> <<"a", "b", "\\x61">>, leafors |-> TRUE]
        ELSE [int |-> <<"0", "1">>, float |-> <<"1.0", "1.00", "2.5", "2.51">>, string |-> <<"a", "b">>, leafors |-> TRUE]
Depth == IF Thorough THEN 2 ELSE 1
MaxBase == IF Thorough THEN 6 ELSE 4       \* top-level or-patterns for types with at most this many binder-free base patterns
Cap2 == IF Thorough THEN 4000 ELSE 800
Cap3 == IF Thorough THEN 1100 ELSE 220

Pool == [ti \in 1..NT |-> SetToSeq(Pats(TyU[ti].ty, Depth, Prof, MaxBase))]
Vals == [ti \in 1..NT |-> Values(TyU[ti].ty, Prof)]
ValsSp == [ti \in 1..NT |-> ValuesG(TyU[ti].ty, Prof, SemSp)]
ValsOg == [ti \in 1..NT |-> ValuesG(TyU[ti].ty, Prof, SemOg)]
ValSeq == [ti \in 1..NT |-> SetToSeq(Vals[ti])]
\* sampled lists draw from the depth-2 pools in both tiers (only computed in sim mode)
Sim == IOEnv.MODE = "sim"
RichPool == IF Thorough \/ ~Sim THEN Pool ELSE [ti \in 1..NT |-> SetToSeq(Pats(TyU[ti].ty, 2, Prof, MaxBase))]

MaxLen(ti) == LET m == Len(Pool[ti]) IN IF m * m * m <= Cap3 THEN 3 ELSE IF m * m <= Cap2 THEN 2 ELSE 1
RECURSIVE PowN(_, _)
PowN(m, e) == IF e = 0 THEN 1 ELSE m * PowN(m, e - 1)
\* segments of the global numbering: all lists of length len over Pool[ti]
RECURSIVE SegsFrom(_, _, _)
SegsFrom(ti, len, start) ==
  IF ti > NT THEN <<>>
  ELSE IF len > MaxLen(ti) THEN SegsFrom(ti + 1, 0, start)
  ELSE LET cnt == PowN(Len(Pool[ti]), len)
       IN <<[ti |-> ti, len |-> len, start |-> start, cnt |-> cnt]>> \o SegsFrom(ti, len + 1, start + cnt)
Segs == SegsFrom(1, 0, 0)
Total == LET s == Segs[Len(Segs)] IN s.start + s.cnt
NBatches == (Total + K - 1) \div K
SegOf(g) == CHOOSE i \in 1..Len(Segs) : Segs[i].start <= g /\ g < Segs[i].start + Segs[i].cnt
ListAt(g) == LET s == Segs[SegOf(g)]
                 m == Len(Pool[s.ti])
                 n == g - s.start
             IN [ti |-> s.ti, g |-> g, arms |-> [i \in 1..s.len |-> Pool[s.ti][((n \div PowN(m, s.len - i)) % m) + 1]]]
BatchAt(b) == [j \in 1..(IF (b + 1) * K <= Total THEN K ELSE Total - b * K) |-> ListAt(b * K + j - 1)]

\* ------------------------------------------------------------- sampled lists (tlc -simulate)
RECURSIVE StripB(_)
StripB(p) == CASE p.k = "bind" -> Wild
               [] p.k \in {"tup", "struct", "var"} -> [p EXCEPT !.ps = [i \in 1..Len(p.ps) |-> StripB(p.ps[i])]]
               [] p.k = "or" -> POr(StripB(p.l), StripB(p.r))
               [] OTHER -> p
RECURSIVE WildTys(_, _)        \* types of the `_` positions of an or-free pattern
WildTys(ty, p) ==
  CASE p.k = "wild" -> {ty}
    [] p.k = "tup" -> UNION {WildTys(ty.ts[i], p.ps[i]) : i \in 1..Len(p.ps)}
    [] p.k = "struct" -> UNION {WildTys(ty.fs[i].t, p.ps[i]) : i \in 1..Len(p.ps)}
    [] p.k = "var" -> LET fs == ty.vs[VarIdx(ty, p.c)].fs IN UNION {WildTys(fs[i].t, p.ps[i]) : i \in 1..Len(p.ps)}
    [] OTHER -> {}
RECURSIVE BindFirst(_, _, _), BindFirstSeq(_, _, _, _)   \* turn the first `_` of type tau into a name; -> [p, done]
BindFirstSeq(tys, ps, tau, i) ==
  IF i > Len(ps) THEN [ps |-> ps, done |-> FALSE]
  ELSE LET r == BindFirst(tys[i], ps[i], tau)
       IN IF r.done THEN [ps |-> [ps EXCEPT ![i] = r.p], done |-> TRUE] ELSE BindFirstSeq(tys, ps, tau, i + 1)
BindFirst(ty, p, tau) ==
  CASE p.k = "wild" -> IF ty = tau THEN [p |-> Bnd, done |-> TRUE] ELSE [p |-> p, done |-> FALSE]
    [] p.k \in {"tup", "struct", "var"} ->
         LET tys == CASE p.k = "tup" -> ty.ts [] p.k = "struct" -> FieldTys(ty.fs) [] p.k = "var" -> FieldTys(ty.vs[VarIdx(ty, p.c)].fs)
             r == BindFirstSeq(tys, p.ps, tau, 1)
         IN [p |-> [p EXCEPT !.ps = r.ps], done |-> r.done]
    [] OTHER -> [p |-> p, done |-> FALSE]
RandArm(ti) ==
  LET ty == TyU[ti].ty
      pool == RichPool[ti]
      p == pool[RandomElement(1..Len(pool))]
      q == pool[RandomElement(1..Len(pool))]
  IN IF RandomElement(1..3) > 1 \/ p = q THEN p
     ELSE IF BinderTys(ty, p) = BinderTys(ty, q) THEN POr(p, q)
     ELSE LET p0 == StripB(p) q0 == StripB(q)
              common == IF HasOr(p0) \/ HasOr(q0) THEN {} ELSE WildTys(ty, p0) \cap WildTys(ty, q0)
          IN IF common = {} \/ RandomElement(1..2) = 1 THEN POr(p0, q0)
             ELSE LET tau == RandomElement(common) IN POr(BindFirst(ty, p0, tau).p, BindFirst(ty, q0, tau).p)
\* lists that are accepted by construction and END in an or-pattern with binders whose alternatives come from different pool
\* patterns (so the same name is bound at different places): binder-free earlier arms, each disjoint from the or-pattern and
\* each covering a value not covered before, take exactly what the or-pattern leaves over
RECURSIVE DrawOrArm(_, _)
DrawOrArm(ti, tries) ==
  LET a == RandArm(ti) IN
  IF a.k = "or" /\ BinderTys(TyU[ti].ty, a) # <<>> /\ WellFormedOr(TyU[ti].ty, a) THEN a
  ELSE IF tries = 0 THEN Wild ELSE DrawOrArm(ti, tries - 1)
RECURSIVE CoverRest(_, _, _, _)
CoverRest(ti, rest, orp, acc) ==
  IF rest = {} THEN [ok |-> TRUE, arms |-> acc]
  ELSE LET v == CHOOSE x \in rest : TRUE
           cands == {j \in 1..Len(Pool[ti]) :
                       LET r == Pool[ti][j] IN
                       /\ BinderTys(TyU[ti].ty, r) = <<>> /\ Matches(v, r)
                       /\ \A x \in Vals[ti] : ~(Matches(x, r) /\ Matches(x, orp))}
       IN IF cands = {} THEN [ok |-> FALSE, arms |-> acc]
          ELSE LET r == Pool[ti][RandomElement(cands)]
               IN CoverRest(ti, {x \in rest : ~Matches(x, r)}, orp, Append(acc, r))
PlainList(g) == LET ti == RandomElement(1..NT)
                    len == RandomElement(2..5)
                IN [ti |-> ti, g |-> g, arms |-> [i \in 1..len |-> RandArm(ti)]]
OrLastList(g) ==
  LET ti == RandomElement(1..NT)
      orp == DrawOrArm(ti, 12)
      c == IF orp.k = "or" THEN CoverRest(ti, Unmatched(Vals[ti], <<orp>>), orp, <<>>) ELSE [ok |-> FALSE, arms |-> <<>>]
  IN IF c.ok THEN [ti |-> ti, g |-> g, arms |-> Append(c.arms, orp)] ELSE PlainList(g)
RandList(g) == IF RandomElement(1..3) = 1 THEN OrLastList(g) ELSE PlainList(g)
RandBatch(b) == [j \in 1..K |-> RandList(b * K + j - 1)]

\* ------------------------------------------------------------- program text of one match
ArmsTxt(ty, arms) == [i \in 1..Len(arms) |-> PatTxt(ty, arms[i], 0).s]
ArmBody(g, i, n) == "\"" \o ToString(g) \o ":" \o ToString(i) \o "\"" \o
                    JoinS([j \in 1..n |-> " .. \":\" .. x" \o ToString(j)], "")
\* where the match stands (same line layout in every placement): on its own, as the body of an arm of another match, or as
\* a branch of an if-else; the verdict on the match does not depend on it
Placement(L) == L.g % 3
MatchFn(L) == LET ty == TyU[L.ti].ty  pl == Placement(L) IN
  << "fn m" \o ToString(L.g) \o "(s: " \o TyExpr(ty) \o ") -> string {",
     CASE pl = 0 -> "  match s {" [] pl = 1 -> "  match true { _ -> match s {" [] pl = 2 -> "  if true { match s {" >> \o
  [i \in 1..Len(L.arms) |-> LET r == PatTxt(ty, L.arms[i], 0) IN "    " \o r.s \o " -> " \o ArmBody(L.g, i, r.n)] \o
  << CASE pl = 0 -> "  }" [] pl = 1 -> "  } }" [] pl = 2 -> "  } } else { \"\" }", "}" >>
\* the admissible lines printed by  println(m<g>(v))
CallOf(L, v) ==
  LET ty == TyU[L.ti].ty
      i == FirstArm(v, L.arms)
      btys == BinderTys(ty, L.arms[i])
      line(bs) == ToString(L.g) \o ":" \o ToString(i) \o JoinS([j \in 1..Len(bs) |-> ":" \o Show(btys[j], bs[j])], "")
  IN [stmt |-> "println(m" \o ToString(L.g) \o "(" \o ValExpr(ty, v) \o "))",
      arm |-> i,
      allowed |-> SetToSeq({line(bs) : bs \in BindsAlt(v, L.arms[i])}),
      key |-> IF ty.k = "void" THEN "C14|scrutinee-of-type-void|match-fails-at-run-time"
              ELSE IF ~SingleOrChain(L.arms[i]) THEN "C14|arm-with-several-or-patterns|combinations-of-alternatives-not-tried"
              ELSE "C14|" \o TyU[L.ti].n \o "|" \o JoinS(ArmsTxt(ty, L.arms), " ; ") \o "|" \o ValExpr(ty, v)]

\* everything the specification says about one match
MatchRec(L, line, wantcalls) ==
  LET ty == TyU[L.ti].ty
      vals == Vals[L.ti]
      un == Unmatched(vals, L.arms)
      exh == un = {}
      exhOg == UnmatchedG(ValsOg[L.ti], L.arms, SemOg) = {}
      red == RedundantSet(vals, L.arms)
      redSp == RedundantSetG(ValsSp[L.ti], L.arms, SemSp)
      redOg == RedundantSetG(ValsOg[L.ti], L.arms, SemOg)
      txt == JoinS(ArmsTxt(ty, L.arms), " ; ")
      dflt == TyU[L.ti].n \o "|" \o txt
      wf == \A i \in 1..Len(L.arms) : WellFormedOr(ty, L.arms[i])
  IN [g |-> L.g, ti |-> L.ti, tyname |-> TyU[L.ti].n, arms |-> L.arms, armstxt |-> txt, wf |-> wf,
      line |-> line + 1, armlines |-> [i \in 1..Len(L.arms) |-> line + 1 + i], fn |-> MatchFn(L),
      exhaustive |-> exh, nunmatched |-> Cardinality(un), nvalues |-> Cardinality(vals),
      redundant |-> [i \in 1..Len(L.arms) |-> i \in red],
      key12 |-> IF exh /\ ~exhOg THEN "C12|generic-enum-payload|exhaustive-match-reported-nonexhaustive" ELSE "C12|" \o dflt,
      key13 |-> [i \in 1..Len(L.arms) |->
                   IF i \in red /\ i \notin redSp THEN "C13|float-literal-respelling|unreachable-arm-not-reported"
                   ELSE IF i \in red /\ i \notin redOg THEN "C13|generic-enum-payload|unreachable-arm-not-reported"
                   ELSE "C13|" \o dflt \o "|arm" \o ToString(i)],
      key12run |-> IF ty.k = "void" THEN "C12|scrutinee-of-type-void|accepted-match-fails-at-run-time"
                   ELSE "C12|accepted-match-runs-no-arm|" \o dflt,
      \* scheduling hint only: check this match in a file of its own (the baseline checker is known to panic on the
      \* generic-enum-payload family, which would hide the verdicts of all other matches of the file)
      isolate |-> \E i \in 1..Len(L.arms) : CompositeInGeneric(ty, L.arms[i]),
      key12fail |-> IF \E i \in 1..Len(L.arms) : CompositeInGeneric(ty, L.arms[i])
                    THEN "C12|generic-enum-payload|checker-panics-on-constructor-pattern-in-payload"
                    ELSE "C12|checker-fails|" \o dflt,
      respelled |-> \E i \in 1..Len(L.arms) : i \in red /\ i \notin redSp,   \* an arm unreachable only because equal literals are spelled differently
      hasor |-> \E i \in 1..Len(L.arms) : HasOr(L.arms[i]),
      prefixes |-> [i \in 1..Len(L.arms) |-> ToString(L.g) \o ":" \o ToString(i)],   \* a printed line starts with one of these
      \* run-time calls for the lists that are accepted: exhaustive and free of redundant arms (also when only one of the
      \* deviant readings SemSp / SemOg finds them free of redundant arms: the baseline compiler accepts those)
      calls |-> IF wantcalls /\ exh /\ (red = {} \/ redSp = {} \/ redOg = {}) THEN [j \in 1..Len(ValSeq[L.ti]) |-> CallOf(L, ValSeq[L.ti][j])] ELSE <<>>]

\* the file of one batch: Header, then the functions; MatchRec gets the line of `fn` (match = next line)
RECURSIVE Recs(_, _, _, _)
Recs(B, j, line, wantcalls) ==
  IF j > Len(B) THEN <<>>
  ELSE <<MatchRec(B[j], line, wantcalls)>> \o Recs(B, j + 1, line + Len(B[j].arms) + 4, wantcalls)
BatchCase(id, B, wantcalls) ==
  LET recs == Recs(B, 1, Len(Header) + 1, wantcalls)
      lines == Header \o FlatS([j \in 1..Len(recs) |-> recs[j].fn])
  IN [id |-> id, mode |-> "check", diags |-> TRUE, header |-> Header,
      files |-> ("main.abra" :> (JoinS(lines, "\n") \o "\n")), matches |-> recs]
=============================================================================
