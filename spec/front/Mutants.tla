----------------------------- MODULE Mutants -----------------------------
(***************************************************************************)
(* The INPUT SPACE of C04 / C34 as a specification: mutation operators     *)
(* over the lexeme sequence of a corpus program, and grammar-based garbage.*)
(*                                                                         *)
(* A program is a sequence of lexemes  [k |-> kind, s |-> text, a |-> ascii]*)
(* (kind: ws nl com id num str op oth; the concatenation of the texts is   *)
(* the program).  The corpus is read from the ndjson file IOEnv.CORPUS     *)
(* written by the driver (a purely syntactic split, driver/props/frontlib).*)
(* A mutant is described by  [op, i, a]  and denotes the lexeme sequence   *)
(* MutLex(L, d).  A case carries `parts`: a sequence of [s |-> text] and   *)
(* [cp |-> code point] records (non-ASCII characters cannot be written in  *)
(* TLA+ strings); the driver only concatenates them.                       *)
(***************************************************************************)
EXTENDS Integers, Sequences, FiniteSets, TLC, Json, IOUtils, SequencesExt

Corpus == ndJsonDeserialize(IOEnv.CORPUS)

\* decimal string -> natural number (parameters arrive through environment variables)
DigitVal(c) == CASE c = "0" -> 0 [] c = "1" -> 1 [] c = "2" -> 2 [] c = "3" -> 3 [] c = "4" -> 4
                 [] c = "5" -> 5 [] c = "6" -> 6 [] c = "7" -> 7 [] c = "8" -> 8 [] c = "9" -> 9
RECURSIVE Nat10(_)
Nat10(s) == IF s = "" THEN 0 ELSE Nat10(SubSeq(s, 1, Len(s) - 1)) * 10 + DigitVal(SubSeq(s, Len(s), Len(s)))
NProg == Len(Corpus)
LexOf(p) == Corpus[p].lex

\* the ordered positions of the solid (non-blank, non-comment) lexemes: Corpus[p].solid (a purely
\* syntactic property of the split, supplied with it)
SolidOf(p) == Corpus[p].solid

(* ---- alphabets ------------------------------------------------------- *)
\* one token of every lexer token kind (abra_core/src/parse/lexer.rs: TokenKind) ...
OpTokens == << "=", "<", "<=", "==", "!=", ">=", ">", "!", "?", "+", "+=", "-", "-=", "*", "*=", "/", "/=",
               "^", "%", "%=", ".", "..", ",", ":", ";", "->", "|", "#", "(", ")", "{", "}", "[", "]" >>
KwTokens == << "and", "or", "not", "let", "var", "type", "interface", "outputtype", "implement", "impl",
               "extend", "use", "as", "except", "fn", "match", "break", "continue", "return", "while", "for",
               "in", "if", "else", "task", "nil", "true", "false", "int", "float", "bool", "string", "void" >>
LitTokens == << "7", "2.5", "\"s\"", "x", "foo", "T", "_", "\n" >>
\* ... and pieces that leave the token grammar: unrecognised characters, unterminated string/comment openers,
\* a stray escape, a line continuation
JunkTokens == << "@", "$", "~", "`", "\"", "'", "\"\"\"", "/*", "*/", "//", "\\", "\\\n", "\"\\q\"", "0x1F", "1__2", "1.2.3" >>
Alphabet == OpTokens \o KwTokens \o LitTokens \o JunkTokens

\* unbalanced openers / closers / quote marks inserted in front of a lexeme
Brackets == << "(", ")", "{", "}", "[", "]", "\"", "'", "\"\"\"", "/*" >>

\* non-ASCII code points: 2-, 3- and 4-byte UTF-8, a combining mark, NBSP, BOM, a line separator
CodePoints == << 233, 8594, 128512, 769, 160, 65279, 8232 >>

(* ---- mutation operators ----------------------------------------------- *)
Lx(k, s) == [k |-> k, s |-> s, a |-> TRUE]
Sp == Lx("ws", " ")
CpLx(c) == [k |-> "cp", s |-> "", a |-> FALSE, cp |-> c]
Head1(s) == SubSeq(s, 1, 1)
Tail1(s) == SubSeq(s, 2, Len(s))

Ops == << "del", "dup", "swap", "repl", "ins", "uni", "unin", "trunc" >>

\* the set of descriptors of one operator on lexeme sequence L  (S = SolidIdx(L))
DescsOf(op, L, S) ==
  CASE op = "del"   -> { [op |-> op, i |-> j, a |-> 0] : j \in 1..Len(S) }
    [] op = "dup"   -> { [op |-> op, i |-> j, a |-> 0] : j \in 1..Len(S) }
    [] op = "swap"  -> { [op |-> op, i |-> j, a |-> 0] : j \in 1..(Len(S) - 1) }
    [] op = "repl"  -> { [op |-> op, i |-> j, a |-> a] : j \in 1..Len(S), a \in 1..Len(Alphabet) }
    [] op = "ins"   -> { [op |-> op, i |-> j, a |-> a] : j \in 1..Len(S), a \in 1..Len(Brackets) }
    \* a code point in front of solid lexeme j / inside it, after its first character
    [] op = "uni"   -> { [op |-> op, i |-> j, a |-> a] : j \in 1..Len(S), a \in 1..Len(CodePoints) }
    [] op = "unin"  -> { [op |-> op, i |-> j, a |-> a] : j \in {j \in 1..Len(S) : L[S[j]].a}, a \in 1..Len(CodePoints) }
    \* keep lexemes 1..i-1 and the first a characters of lexeme i (all lexemes, blank ones included):
    \* every prefix of the text at a character boundary (inside a lexeme only if it is ASCII)
    [] op = "trunc" -> { [op |-> op, i |-> i, a |-> a] : i \in 1..Len(L), a \in 0..0 } \cup
                       UNION { { [op |-> op, i |-> i, a |-> a] : a \in 1..(Len(L[i].s) - 1) } : i \in {i \in 1..Len(L) : L[i].a} }

AllDescs(L, S) == UNION { DescsOf(Ops[o], L, S) : o \in 1..Len(Ops) }

\* the mutated lexeme sequence
MutLex(L, S, d) ==
  LET n == Len(L)
      pos == IF d.op = "trunc" THEN d.i ELSE S[d.i]
      pre == SubSeq(L, 1, pos - 1)
      suf == SubSeq(L, pos + 1, n)
      x == L[pos]
  IN CASE d.op = "del"   -> pre \o suf
       [] d.op = "dup"   -> pre \o <<x, Sp, x>> \o suf
       [] d.op = "swap"  -> LET q == S[d.i + 1] IN
                            pre \o <<L[q]>> \o SubSeq(L, pos + 1, q - 1) \o <<x>> \o SubSeq(L, q + 1, n)
       [] d.op = "repl"  -> pre \o <<Lx("op", Alphabet[d.a])>> \o suf
       [] d.op = "ins"   -> pre \o <<Lx("op", Brackets[d.a]), x>> \o suf
       [] d.op = "uni"   -> pre \o <<CpLx(CodePoints[d.a]), x>> \o suf
       [] d.op = "unin"  -> pre \o <<[x EXCEPT !.s = Head1(x.s)], CpLx(CodePoints[d.a]), [x EXCEPT !.s = Tail1(x.s)]>> \o suf
       [] d.op = "trunc" -> pre \o (IF d.a = 0 THEN <<>> ELSE <<[x EXCEPT !.s = SubSeq(x.s, 1, d.a)]>>)
       [] d.op = "orig"  -> L

(* ---- text ------------------------------------------------------------- *)
RECURSIVE JoinLex(_, _, _)
JoinLex(M, a, b) == IF a > b THEN "" ELSE IF a = b THEN M[a].s
                    ELSE LET m == (a + b) \div 2 IN JoinLex(M, a, m) \o JoinLex(M, m + 1, b)

\* parts: maximal runs of ordinary lexemes joined into one string, code points kept apart
Parts(M) ==
  LET C == SelectSeq([i \in 1..Len(M) |-> i], LAMBDA i : M[i].k = "cp")
      Seg(a, b) == IF a > b THEN <<>> ELSE <<[s |-> JoinLex(M, a, b)]>>
      RECURSIVE Go(_, _)
      Go(from, c) == IF c > Len(C) THEN Seg(from, Len(M))
                     ELSE Seg(from, C[c] - 1) \o <<[cp |-> M[C[c]].cp]>> \o Go(C[c] + 1, c + 1)
  IN Go(1, 1)

\* the id names the corpus program (not its index): it is the same in every tier / corpus subset
DescId(p, d) == Corpus[p].name \o "." \o d.op \o "." \o ToString(d.i) \o "." \o ToString(d.a)

MutantCase(p, d) ==
  [id |-> DescId(p, d), gen |-> "mutant", prog |-> Corpus[p].name, p |-> p, op |-> d.op, i |-> d.i, a |-> d.a,
   parts |-> Parts(MutLex(LexOf(p), SolidOf(p), d))]

(* ---- random choice of one mutant (tlc -simulate) ---------------------- *)
Pick(S) == RandomElement(S)
\* operator first (uniformly), then position and argument: every operator is exercised equally often
RandomDesc(L, S) ==
  LET op == Pick({Ops[o] : o \in 1..Len(Ops)})
      D(j, a) == [op |-> op, i |-> j, a |-> a]
      asc == {j \in 1..Len(S) : L[S[j]].a}
  IN IF Len(L) = 0 THEN [op |-> "orig", i |-> 0, a |-> 0]
     ELSE IF op = "trunc" THEN LET i == Pick(1..Len(L)) IN
                               D(i, IF L[i].a /\ Len(L[i].s) > 1 THEN Pick(0..(Len(L[i].s) - 1)) ELSE 0)
     ELSE IF Len(S) = 0 \/ (op = "swap" /\ Len(S) < 2) \/ (op = "unin" /\ asc = {}) THEN [op |-> "orig", i |-> 0, a |-> 0]
     ELSE CASE op \in {"del", "dup"} -> D(Pick(1..Len(S)), 0)
            [] op = "swap" -> D(Pick(1..(Len(S) - 1)), 0)
            [] op = "repl" -> D(Pick(1..Len(S)), Pick(1..Len(Alphabet)))
            [] op = "ins"  -> D(Pick(1..Len(S)), Pick(1..Len(Brackets)))
            [] op = "uni"  -> D(Pick(1..Len(S)), Pick(1..Len(CodePoints)))
            [] op = "unin" -> D(Pick(asc), Pick(1..Len(CodePoints)))

\* a random prefix of the text (at a character boundary)
RandomTrunc(L) ==
  IF Len(L) = 0 THEN [op |-> "orig", i |-> 0, a |-> 0]
  ELSE LET i == Pick(1..Len(L)) IN
       [op |-> "trunc", i |-> i, a |-> IF L[i].a /\ Len(L[i].s) > 1 THEN Pick(0..(Len(L[i].s) - 1)) ELSE 0]

(* ---- grammar-based garbage ---------------------------------------------
   (a) token soup: every sequence of n alphabet tokens separated by blanks;
   (b) statement skeletons whose holes are filled with arbitrary alphabet tokens: the text parses far
       more often than soup, so resolver / type checker / exhaustiveness checker see odd trees.      *)
Hole == "<HOLE>"
Skeletons == <<
  <<"let x = ", Hole, " ", Hole>>,
  <<"let x: ", Hole, " = ", Hole>>,
  <<"var v = 1\nv ", Hole, " ", Hole>>,
  <<"fn f(a, b) { a ", Hole, " b }\nf(1, ", Hole, ")">>,
  <<"fn f(a: int, b = 2) -> ", Hole, " { ", Hole, " }\nf(1, ", Hole, " = 3)">>,
  <<"fn g(", Hole, ") { ", Hole, " }">>,
  <<"let a = [1, 2]\na[", Hole, "] ", Hole, " 3">>,
  <<"for i in ", Hole, " { i ", Hole, " 5 }">>,
  <<"for (i, j) in [(1, 2)] { ", Hole, " = ", Hole, " }">>,
  <<"while ", Hole, " { ", Hole, " }">>,
  <<"match ", Hole, " { ", Hole, " -> 1, _ -> 2 }">>,
  <<"match (1, true) { (", Hole, ", ", Hole, ") -> 1 }">>,
  <<"match 5 { x -> { x ", Hole, " ", Hole, " } }">>,
  <<"type Color = Red | Green(", Hole, ")\nlet c = Color.", Hole>>,
  <<"type Pt = { x: ", Hole, ", y: int }\nlet p = Pt(1, 2)\np.", Hole>>,
  <<"type Pt = { x: int }\nlet p = Pt(", Hole, " = ", Hole, ")">>,
  <<"let f = (a, b) -> a ", Hole, " ", Hole, "\nf(1, 2)">>,
  <<"let f = ", Hole, " -> ", Hole>>,
  <<"if ", Hole, " { 1 } else { ", Hole, " }">>,
  <<"interface Sh { fn area(self) -> ", Hole, " }\nimplement Sh for ", Hole, " { fn area(self) { 1 } }">>,
  <<"extend ", Hole, " { fn twice(self) { self ", Hole, " self } }">>,
  <<"use ", Hole, "\nlet t = ", Hole>>,
  <<"let t = task { ", Hole, " }\n", Hole>>,
  <<"let o: option<int> = ", Hole, "\no", Hole>>,
  <<"fn r() -> result<int, string> { ", Hole, "? }\nr()", Hole>>,
  <<"println(", Hole, " .. ", Hole, ")">>,
  <<"let (a, ", Hole, ") = (1, ", Hole, ")">>,
  <<"#", Hole, " fn h(a: int) -> ", Hole>>
>>

RECURSIVE Fill(_, _, _)
Fill(sk, toks, k) ==      \* k-th hole gets toks[k]
  IF sk = <<>> THEN ""
  ELSE IF Head(sk) = Hole THEN toks[k] \o Fill(Tail(sk), toks, k + 1)
       ELSE Head(sk) \o Fill(Tail(sk), toks, k)
NHoles(sk) == Cardinality({i \in 1..Len(sk) : sk[i] = Hole})

RECURSIVE JoinToks(_, _)
JoinToks(toks, i) == IF i > Len(toks) THEN "" ELSE toks[i] \o (IF i < Len(toks) THEN " " ELSE "") \o JoinToks(toks, i + 1)

TokIdx == 1..Len(Alphabet)
IdxStr(ix) == LET RECURSIVE G(_) G(i) == IF i > Len(ix) THEN "" ELSE "." \o ToString(ix[i]) \o G(i + 1) IN G(1)
SoupCase(ix) ==      \* ix: sequence of alphabet indices
  [id |-> "soup" \o IdxStr(ix), gen |-> "soup", prog |-> "", p |-> 0, op |-> "soup", i |-> Len(ix), a |-> 0,
   parts |-> <<[s |-> JoinToks([j \in 1..Len(ix) |-> Alphabet[ix[j]]], 1)]>>]
SkelCase(k, ix) ==
  [id |-> "skel" \o ToString(k) \o IdxStr(ix), gen |-> "skel", prog |-> "", p |-> 0, op |-> "skel", i |-> k, a |-> 0,
   parts |-> <<[s |-> Fill(Skeletons[k], [j \in 1..Len(ix) |-> Alphabet[ix[j]]], 1)]>>]
RandomIdx(n) == [j \in 1..n |-> Pick(TokIdx)]

(* (c) expression soup: every sequence of n tokens of a small expression alphabet (literal, name, unary and binary
       operators, parentheses, the line break) appended to `let y = x`: the operator/operand/line-break combinations the
       Pratt parser has to decide on, exhaustively up to length n *)
ExprAlphabet == << "1", "x", "+", "-", "\n", "(", "not", ".." >>
ExprIdx == 1..Len(ExprAlphabet)
ESoupCase(ix) ==
  [id |-> "esoup" \o IdxStr(ix), gen |-> "esoup", prog |-> "", p |-> 0, op |-> "esoup", i |-> Len(ix), a |-> 0,
   parts |-> <<[s |-> "let x = 2\nlet y = x " \o JoinToks([j \in 1..Len(ix) |-> ExprAlphabet[ix[j]]], 1) \o "\n"]>>]

(* (c2) declaration soup: every sequence of n lines of a pool of interface / implementation / type declarations and
        their uses, in which some of the names are not declared, declared twice, or used before anything implements them *)
DeclLines == <<
  "interface Sp { fn say(self) -> int }",
  "type Pt = { x: int }",
  "implement Sp for Pt { fn say(self) -> int { 1 } }",
  "implement Sp for Nope { fn say(self) -> int { 1 } }",
  "implement Sp for array<Nope> {}",
  "implement Sp for array<Pt> {}",
  "implement Nope for Pt {}",
  "implement ToString for Nope { fn str(self) -> string { \"a\" } }",
  "println(Sp.say(5))",
  "println(Pt(1).say())",
  "println(Pt(1))",
  "if true { println(1) } else { println }",
  "fn dup(a, a = 1) { a }",
  "println(dup(1))",
  "let o: option<void> = option.some(nil)",
  "println(match o { _ -> 1 })",
  "println(match o { .some(_) -> 1, .none -> 2 })",
  "let ar: array<> = [1]",
  "fn ident(x: array) = x",
  "println(ident([1])[0])",
  "let oo: option<int, int> = option.some(1)",
  "let pp: Pt<int> = Pt(1)",
  "let oi: option<int> = option.some(1)",
  "println(match oi { .some(x) -> x })",
  "let ri: result<int, string> = result.ok(1)",
  "println(match ri { .ok(x) -> x })",
  "fn dup2(a, a, b = 3) = a",
  "println(dup2(1, 2))",
  "println(match panic(\"x\") { _ -> 1 })" >>
LineIdx == 1..Len(DeclLines)
RECURSIVE JoinLines(_, _)
JoinLines(ls, i) == IF i > Len(ls) THEN "" ELSE ls[i] \o "\n" \o JoinLines(ls, i + 1)
LSoupCase(ix) ==
  [id |-> "lsoup" \o IdxStr(ix), gen |-> "lsoup", prog |-> "", p |-> 0, op |-> "lsoup", i |-> Len(ix), a |-> 0,
   parts |-> <<[s |-> JoinLines([j \in 1..Len(ix) |-> DeclLines[ix[j]]], 1)]>>]

(* (c3) argument lists: every sequence of n arguments from a pool (positional, named, named twice, unknown name) in a call
        of a function with a required and a defaulted parameter, and in a struct construction *)
ArgAlphabet == << "\"p\"", "name = \"a\"", "greeting = \"b\"", "zz = 1" >>
ArgIdx == 1..Len(ArgAlphabet)
RECURSIVE JoinArgs(_, _)
JoinArgs(as, i) == IF i > Len(as) THEN "" ELSE as[i] \o (IF i < Len(as) THEN ", " ELSE "") \o JoinArgs(as, i + 1)
ArgsCase(callee, ix) ==      \* callee: 1 = function, 2 = struct constructor
  LET args == JoinArgs([j \in 1..Len(ix) |-> ArgAlphabet[ix[j]]], 1) IN
  [id |-> "args" \o ToString(callee) \o IdxStr(ix), gen |-> "args", prog |-> "", p |-> 0, op |-> "args", i |-> Len(ix), a |-> callee,
   parts |-> <<[s |-> IF callee = 1
                      THEN "fn greet(name, greeting = \"hello\") { name .. greeting }\nprintln(greet(" \o args \o "))\n"
                      ELSE "type Gr = { name: string, greeting: string }\nlet g = Gr(" \o args \o ")\nprintln(g.name)\n"]>>]

(* (c4) lambda terms: every closed term of the untyped lambda calculus up to a size (variable 1, abstraction 1 + body,
        application 1 + function + argument), written with unannotated Abra lambdas.  Most of them have no finite type
        (self application, fixed-point combinators): what type inference has to refuse without looping *)
RECURSIVE LamTerms(_, _)
LamTerms(n, k) ==      \* terms of size n under k binders v0 .. v(k-1), as text
  IF n < 1 THEN {}
  ELSE (IF n = 1 THEN {"v" \o ToString(j) : j \in 0..(k - 1)} ELSE {})
       \cup {"(v" \o ToString(k) \o ") -> " \o b : b \in LamTerms(n - 1, k + 1)}
       \cup UNION {{"(" \o f \o ")(" \o x \o ")" : f \in LamTerms(i, k), x \in LamTerms(n - 1 - i, k)} : i \in 1..(n - 2)}
LamSeq(n) == SetToSeq(LamTerms(n, 0))
LamCase(n, t) ==
  [id |-> "lam" \o ToString(n) \o "." \o ToString(t), gen |-> "lam", prog |-> "", p |-> 0, op |-> "lam", i |-> n, a |-> t,
   parts |-> <<[s |-> "let t = " \o LamSeq(n)[t] \o "\nprintln(1)\n"]>>]

(* (d) typing: every prefix of a few short texts that are rich in lexical forms (escapes in strings and characters,
       triple-quoted text, comments, digit separators, floats, operators of two characters): what an editor hands to
       the analysis while the text is being typed *)
TypingTexts == <<
  "let s = \"a\\n\\t\\\"b\\\\\"\nlet c = 'x'\nlet d = '\\n'\nprintln(s .. c)\n",
  "let n = 1_000_000 + 0.5e3 - 3.141_592\n// note\\\nlet m = n /* mid\\ */ * 2\nprintln(m >= 1 and m != 2)\n",
  "let t = \"\"\"\n  first \\\" line\n    second\n  \"\"\"\nprintln(t)\n",
  "fn f(a: int, b = \"q\\\\\") -> string {\n  match a { 0 -> \"z\", _ -> b .. \"\\n\" }\n}\nprintln(f(1))\n",
  "type P = { x: float }\nlet p = P(1.5)\np.x += 2.0\nlet r = [p.x, -p.x ^ 2.0]\nprintln(r[0] <= r[1])\n" >>
TypingCase(k, n) ==
  [id |-> "typing." \o ToString(k) \o "." \o ToString(n), gen |-> "typing", prog |-> "", p |-> 0, op |-> "typing", i |-> k, a |-> n,
   parts |-> <<[s |-> SubSeq(TypingTexts[k], 1, n)]>>]

\* the unmodified corpus program (sanity: the harness sees what the project's own tests see)
OrigCase(p) == [id |-> Corpus[p].name \o ".orig.0.0", gen |-> "orig", prog |-> Corpus[p].name, p |-> p,
                op |-> "orig", i |-> 0, a |-> 0, parts |-> Parts(LexOf(p))]
=============================================================================
