----------------------------- MODULE AbraMatch -----------------------------
(***************************************************************************)
(* Set-theoretic meaning of Abra patterns (book/src/language_reference/    *)
(* patterns.md, enums.md, structs.md):                                     *)
(*   - a type denotes a set of values; Values(ty) is a finite set of       *)
(*     representatives: bool, void, tuples, structs and enums are listed   *)
(*     completely, int/float/string ("unlistable") are represented by the  *)
(*     values of the literals of a fixed pool plus ONE fresh value (every  *)
(*     value outside the pool behaves like the fresh one for every pattern *)
(*     that only mentions pool literals);                                  *)
(*   - Matches(v, p): `_` and a name match anything, a literal matches the *)
(*     value it *denotes* (so `1.0`, `1.00`, `01.0` are the same pattern,  *)
(*     as are `1` / `01` and "a" / "\x61"), tuple / struct / variant       *)
(*     patterns match component-wise (named fields in any order), `p | q`  *)
(*     matches if p or q does;                                             *)
(*   - a match runs the FIRST arm whose pattern matches (FirstArm);        *)
(*   - Exhaustive, Unmatched, Redundant(i) are defined by brute force over *)
(*     Values(ty);  Binds(v, p) is the sequence of parts of v bound by the *)
(*     names of p (in declaration order of the components).                *)
(* Nothing in here looks at how the checker or the code generator work.    *)
(***************************************************************************)
EXTENDS Naturals, Sequences, FiniteSets, TLC

\* ------------------------------------------------------------- helpers
RECURSIVE SeqsOver(_)      \* all sequences s with s[i] \in S[i]
SeqsOver(S) == IF S = <<>> THEN {<<>>} ELSE {<<h>> \o t : h \in S[1], t \in SeqsOver(Tail(S))}
RECURSIVE JoinS(_, _)
JoinS(ss, sep) == IF ss = <<>> THEN "" ELSE IF Len(ss) = 1 THEN ss[1] ELSE ss[1] \o sep \o JoinS(Tail(ss), sep)
RECURSIVE FlatS(_)
FlatS(sq) == IF sq = <<>> THEN <<>> ELSE sq[1] \o FlatS(Tail(sq))
RevS(s) == [i \in 1..Len(s) |-> s[Len(s) + 1 - i]]
RngS(s) == {s[i] : i \in DOMAIN s}

\* ------------------------------------------------------------- literals
DigitVal(c) == CASE c = "0" -> 0 [] c = "1" -> 1 [] c = "2" -> 2 [] c = "3" -> 3 [] c = "4" -> 4
                 [] c = "5" -> 5 [] c = "6" -> 6 [] c = "7" -> 7 [] c = "8" -> 8 [] c = "9" -> 9
IsDigit(c) == c \in {"0", "1", "2", "3", "4", "5", "6", "7", "8", "9"}
RECURSIVE StrToNatAcc(_, _)
StrToNatAcc(s, acc) == IF s = "" THEN acc
                       ELSE LET c == SubSeq(s, 1, 1) r == SubSeq(s, 2, Len(s))
                            IN IF c = "_" THEN StrToNatAcc(r, acc) ELSE StrToNatAcc(r, 10 * acc + DigitVal(c))
StrToNat(s) == StrToNatAcc(s, 0)            \* `01`, `0_1`, `1` all denote 1
IsNatStr(s) == s # "" /\ \A i \in 1..Len(s) : IsDigit(SubSeq(s, i, i))

RECURSIVE StripLead0(_), StripTrail0(_), DotPos(_, _)
StripLead0(s) == IF Len(s) > 1 /\ SubSeq(s, 1, 1) = "0" THEN StripLead0(SubSeq(s, 2, Len(s))) ELSE s
StripTrail0(s) == IF s # "" /\ SubSeq(s, Len(s), Len(s)) = "0" THEN StripTrail0(SubSeq(s, 1, Len(s) - 1)) ELSE s
DotPos(s, i) == IF i > Len(s) THEN 0 ELSE IF SubSeq(s, i, i) = "." THEN i ELSE DotPos(s, i + 1)
\* canonical decimal numeral of the number a float literal `digits.digits` denotes: 1.00 -> "1", 02.50 -> "2.5"
\* (this is also how the value prints: Rust Display prints 1.0 as `1`, 2.5 as `2.5`)
FloatCanon(s) == LET d == DotPos(s, 1)
                     ip == StripLead0(IF d = 0 THEN s ELSE SubSeq(s, 1, d - 1))
                     fp == IF d = 0 THEN "" ELSE StripTrail0(SubSeq(s, d + 1, Len(s)))
                 IN IF fp = "" THEN ip ELSE ip \o "." \o fp
IsFloatStr(s) == LET d == DotPos(s, 1) IN d > 1 /\ d < Len(s) /\ IsNatStr(SubSeq(s, 1, d - 1)) /\ IsNatStr(SubSeq(s, d + 1, Len(s)))

HexChar(h) == CASE h = "61" -> "a" [] h = "62" -> "b" [] h = "63" -> "c" [] h = "7a" -> "z" [] OTHER -> "?"
RECURSIVE Unescape(_)      \* the string a string literal denotes (only the escapes used by the pools)
Unescape(s) == IF s = "" THEN ""
               ELSE IF Len(s) >= 4 /\ SubSeq(s, 1, 2) = "\\x" THEN HexChar(SubSeq(s, 3, 4)) \o Unescape(SubSeq(s, 5, Len(s)))
               ELSE SubSeq(s, 1, 1) \o Unescape(SubSeq(s, 2, Len(s)))

\* ------------------------------------------------------------- types
Bool == [k |-> "bool"]
Void == [k |-> "void"]
IntT == [k |-> "int"]
FltT == [k |-> "float"]
StrT == [k |-> "string"]
Tup(ts) == [k |-> "tuple", ts |-> ts]
Fld(f, t) == [f |-> f, t |-> t]
Struct(n, fs) == [k |-> "struct", n |-> n, fs |-> fs]            \* fs: sequence of Fld
Variant(c, named, fs) == [c |-> c, named |-> named, fs |-> fs]  \* positional fields have f = ""
\* n: enum name used to construct values (`Shape.Va`, `option.none`); tx: type expression (`option<bool>`);
\* builtin: declared by the prelude (generic: option, result)
Enum(n, tx, builtin, vs) == [k |-> "enum", n |-> n, tx |-> tx, builtin |-> builtin, vs |-> vs]
OptionOf(t, tx) == Enum("option", tx, TRUE, << Variant("some", FALSE, <<Fld("", t)>>), Variant("none", FALSE, <<>>) >>)
ResultOf(t, e, tx) == Enum("result", tx, TRUE, << Variant("ok", FALSE, <<Fld("", t)>>), Variant("err", FALSE, <<Fld("", e)>>) >>)

IsLeafTy(ty) == ty.k \in {"bool", "void", "int", "float", "string"}
Unlistable(ty) == ty.k \in {"int", "float", "string"}
FieldTys(fs) == [i \in 1..Len(fs) |-> fs[i].t]
VarIdx(ty, c) == CHOOSE j \in 1..Len(ty.vs) : ty.vs[j].c = c
HasVariant(ty, c) == \E j \in 1..Len(ty.vs) : ty.vs[j].c = c

\* ------------------------------------------------------------- values
\* [k "b", v] | [k "nil"] | [k "i", v] | [k "f", c (canonical numeral)] | [k "s", v] | [k "t", es] (tuple)
\* | [k "r", es] (struct) | [k "v", c, es] (variant)
LitVal(t, s) == CASE t = "bool" -> [k |-> "b", v |-> (s = "true")]
                  [] t = "nil" -> [k |-> "nil"]
                  [] t = "int" -> [k |-> "i", v |-> StrToNat(s)]
                  [] t = "float" -> [k |-> "f", c |-> FloatCanon(s)]
                  [] t = "string" -> [k |-> "s", v |-> Unescape(s)]
FreshInt == [k |-> "i", v |-> 7]
FreshFlt == [k |-> "f", c |-> "9.25"]
FreshStr == [k |-> "s", v |-> "zz"]

\* LP: literal pools, a record [int, float, string] of sequences of spellings.
\* sem: [sp, og].  The meaning of the language is Sem0 (both FALSE).  The two deviant readings exist only to
\* *name* defect families (they never decide correctness):  sp = two float literals are the same pattern only
\* if spelled identically;  og = the payload of a generic (prelude) enum is treated as unlistable, i.e. it has
\* one more value that only `_` / a name can match.
Sem0 == [sp |-> FALSE, og |-> FALSE]
SemSp == [sp |-> TRUE, og |-> FALSE]
SemOg == [sp |-> FALSE, og |-> TRUE]
Opaque == [k |-> "opaque"]
LitValG(t, s, sem) == IF sem.sp /\ t = "float" THEN [k |-> "f", c |-> s] ELSE LitVal(t, s)
RECURSIVE ValuesG(_, _, _)
ValuesG(ty, LP, sem) ==
  CASE ty.k = "bool" -> {[k |-> "b", v |-> TRUE], [k |-> "b", v |-> FALSE]}
    [] ty.k = "void" -> {[k |-> "nil"]}
    [] ty.k = "int" -> {LitVal("int", s) : s \in RngS(LP.int)} \cup {FreshInt}
    [] ty.k = "float" -> {LitValG("float", s, sem) : s \in RngS(LP.float)} \cup {FreshFlt}
    [] ty.k = "string" -> {LitVal("string", s) : s \in RngS(LP.string)} \cup {FreshStr}
    [] ty.k = "tuple" -> {[k |-> "t", es |-> s] : s \in SeqsOver([i \in 1..Len(ty.ts) |-> ValuesG(ty.ts[i], LP, sem)])}
    [] ty.k = "struct" -> {[k |-> "r", es |-> s] : s \in SeqsOver([i \in 1..Len(ty.fs) |-> ValuesG(ty.fs[i].t, LP, sem)])}
    [] ty.k = "enum" ->
         UNION {{[k |-> "v", c |-> ty.vs[j].c, es |-> s] :
                   s \in SeqsOver([i \in 1..Len(ty.vs[j].fs) |->
                          ValuesG(ty.vs[j].fs[i].t, LP, sem) \cup
                          (IF sem.og /\ ty.builtin /\ ~Unlistable(ty.vs[j].fs[i].t) THEN {Opaque} ELSE {})])}
                : j \in 1..Len(ty.vs)}
Values(ty, LP) == ValuesG(ty, LP, Sem0)

\* ------------------------------------------------------------- patterns
\* st (style): "pos" positional, "named" by name in declaration order, "rev" by name in reverse order,
\*             "none" variant without payload.  ps is always in declaration order.
Wild == [k |-> "wild"]
Bnd == [k |-> "bind"]
Lit(t, s) == [k |-> "lit", t |-> t, s |-> s]
PTup(ps) == [k |-> "tup", ps |-> ps]
PStruct(st, ps) == [k |-> "struct", st |-> st, ps |-> ps]
PVar(c, st, ps) == [k |-> "var", c |-> c, st |-> st, ps |-> ps]
POr(l, r) == [k |-> "or", l |-> l, r |-> r]
BadPat == [k |-> "bad"]

RECURSIVE MatchesG(_, _, _)
MatchesG(v, p, sem) ==
  CASE p.k \in {"wild", "bind"} -> TRUE
    [] p.k = "bad" -> FALSE
    [] p.k = "or" -> MatchesG(v, p.l, sem) \/ MatchesG(v, p.r, sem)
    [] v.k = "opaque" -> FALSE
    [] p.k = "lit" -> v = LitValG(p.t, p.s, sem)
    [] p.k \in {"tup", "struct"} -> \A i \in 1..Len(p.ps) : MatchesG(v.es[i], p.ps[i], sem)
    [] p.k = "var" -> v.c = p.c /\ \A i \in 1..Len(p.ps) : MatchesG(v.es[i], p.ps[i], sem)
Matches(v, p) == MatchesG(v, p, Sem0)

FirstArm(v, arms) == IF \E i \in 1..Len(arms) : Matches(v, arms[i])
                     THEN CHOOSE i \in 1..Len(arms) : Matches(v, arms[i]) /\ \A j \in 1..(i - 1) : ~Matches(v, arms[j])
                     ELSE 0
UnmatchedG(vals, arms, sem) == {v \in vals : \A i \in 1..Len(arms) : ~MatchesG(v, arms[i], sem)}
RedundantSetG(vals, arms, sem) ==
  {i \in 1..Len(arms) : \A v \in vals : MatchesG(v, arms[i], sem) => \E j \in 1..(i - 1) : MatchesG(v, arms[j], sem)}
Unmatched(vals, arms) == UnmatchedG(vals, arms, Sem0)
Exhaustive(vals, arms) == Unmatched(vals, arms) = {}
RedundantSet(vals, arms) == RedundantSetG(vals, arms, Sem0)
Redundant(vals, arms, i) == i \in RedundantSet(vals, arms)
\* a reported missing pattern w is justified iff it covers at least one unmatched value
WitnessOK(vals, arms, w) == \E v \in Unmatched(vals, arms) : Matches(v, w)

\* bound values, in the order of the names x1, x2, ... (declaration order of components, left alternative
\* of an or-pattern first).  BindsAlt: the set of admissible binding sequences -- when both alternatives of
\* an or-pattern match, the language reference does not say which one binds, so both are admitted.
RECURSIVE BindsAlt(_, _)
BindsAlt(v, p) ==
  CASE p.k = "wild" -> {<<>>}
    [] p.k = "bind" -> {<<v>>}
    [] p.k = "lit" -> {<<>>}
    [] p.k \in {"tup", "struct", "var"} ->
         {FlatS(s) : s \in SeqsOver([i \in 1..Len(p.ps) |-> BindsAlt(v.es[i], p.ps[i])])}
    [] p.k = "or" -> (IF Matches(v, p.l) THEN BindsAlt(v, p.l) ELSE {}) \cup (IF Matches(v, p.r) THEN BindsAlt(v, p.r) ELSE {})

RECURSIVE HasOr(_)
HasOr(p) == CASE p.k = "or" -> TRUE
              [] p.k \in {"tup", "struct", "var"} -> \E i \in 1..Len(p.ps) : HasOr(p.ps[i])
              [] OTHER -> FALSE
\* all or-patterns of p form one chain `a | b | c` (right-nested, or-free alternatives) at a single position
RECURSIVE OrChain(_), SingleOrChain(_)
OrChain(p) == p.k = "or" /\ ~HasOr(p.l) /\ (~HasOr(p.r) \/ OrChain(p.r))
SingleOrChain(p) == \/ ~HasOr(p)
                    \/ OrChain(p)
                    \/ /\ p.k \in {"tup", "struct", "var"}
                       /\ Len(SelectSeq(p.ps, HasOr)) = 1
                       /\ \A i \in 1..Len(p.ps) : SingleOrChain(p.ps[i])

\* ------------------------------------------------------------- typed binder information
RECURSIVE BinderTys(_, _)     \* types of the names of p, in naming order (left alternative of or-patterns)
BinderTys(ty, p) ==
  CASE p.k = "bind" -> <<ty>>
    [] p.k = "tup" -> FlatS([i \in 1..Len(p.ps) |-> BinderTys(ty.ts[i], p.ps[i])])
    [] p.k = "struct" -> FlatS([i \in 1..Len(p.ps) |-> BinderTys(ty.fs[i].t, p.ps[i])])
    [] p.k = "var" -> LET fs == ty.vs[VarIdx(ty, p.c)].fs IN FlatS([i \in 1..Len(p.ps) |-> BinderTys(fs[i].t, p.ps[i])])
    [] p.k = "or" -> BinderTys(ty, p.l)
    [] OTHER -> <<>>
RECURSIVE WellFormedOr(_, _)   \* both alternatives of every or-pattern bind the same names at the same types
WellFormedOr(ty, p) ==
  CASE p.k = "tup" -> \A i \in 1..Len(p.ps) : WellFormedOr(ty.ts[i], p.ps[i])
    [] p.k = "struct" -> \A i \in 1..Len(p.ps) : WellFormedOr(ty.fs[i].t, p.ps[i])
    [] p.k = "var" -> LET fs == ty.vs[VarIdx(ty, p.c)].fs IN \A i \in 1..Len(p.ps) : WellFormedOr(fs[i].t, p.ps[i])
    [] p.k = "or" -> WellFormedOr(ty, p.l) /\ WellFormedOr(ty, p.r) /\ BinderTys(ty, p.l) = BinderTys(ty, p.r)
    [] OTHER -> TRUE

RECURSIVE StripOr(_)       \* leftmost alternative
StripOr(p) == IF p.k = "or" THEN StripOr(p.l) ELSE p
\* a refutable sub-pattern sits inside the payload of a variant of a *generic* (prelude) enum
RECURSIVE Refutable(_), RefutableInGeneric(_, _)
Refutable(p) == CASE p.k \in {"wild", "bind"} -> FALSE
                  [] p.k = "or" -> Refutable(p.l) \/ Refutable(p.r)
                  [] OTHER -> TRUE
RefutableInGeneric(ty, p) ==
  CASE p.k = "tup" -> \E i \in 1..Len(p.ps) : RefutableInGeneric(ty.ts[i], p.ps[i])
    [] p.k = "struct" -> \E i \in 1..Len(p.ps) : RefutableInGeneric(ty.fs[i].t, p.ps[i])
    [] p.k = "var" -> LET fs == ty.vs[VarIdx(ty, p.c)].fs
                      IN \E i \in 1..Len(p.ps) : (ty.builtin /\ Refutable(p.ps[i])) \/ RefutableInGeneric(fs[i].t, p.ps[i])
    [] p.k = "or" -> RefutableInGeneric(ty, p.l) \/ RefutableInGeneric(ty, p.r)
    [] OTHER -> FALSE

\* a tuple / struct / variant pattern sits directly in the payload position of a variant of a generic enum
RECURSIVE CompositeInGeneric(_, _)
CompositeInGeneric(ty, p) ==
  CASE p.k = "tup" -> \E i \in 1..Len(p.ps) : CompositeInGeneric(ty.ts[i], p.ps[i])
    [] p.k = "struct" -> \E i \in 1..Len(p.ps) : CompositeInGeneric(ty.fs[i].t, p.ps[i])
    [] p.k = "var" -> LET fs == ty.vs[VarIdx(ty, p.c)].fs
                      IN \E i \in 1..Len(p.ps) : (ty.builtin /\ StripOr(p.ps[i]).k \in {"tup", "struct", "var"})
                                                  \/ CompositeInGeneric(fs[i].t, p.ps[i])
    [] p.k = "or" -> CompositeInGeneric(ty, p.l) \/ CompositeInGeneric(ty, p.r)
    [] OTHER -> FALSE

\* ------------------------------------------------------------- pattern universes
\* profile P: [int, float, string: literal pools (sequences of spellings), leafors: BOOLEAN]
LitKind(ty) == IF ty.k = "void" THEN "nil" ELSE ty.k
LitPool(ty, P) == CASE ty.k = "bool" -> <<"true", "false">> [] ty.k = "void" -> <<"nil">>
                    [] ty.k = "int" -> P.int [] ty.k = "float" -> P.float [] ty.k = "string" -> P.string
LeafLits(ty, P) == {Lit(LitKind(ty), s) : s \in RngS(LitPool(ty, P))}
\* one or-pattern per leaf type in nested positions: the first two *distinct-valued* literals of the pool
LeafOr(ty, P) == LET pool == LitPool(ty, P)
                 IN IF Len(pool) < 2 \/ ~P.leafors THEN {}
                    ELSE LET j == CHOOSE j \in 2..Len(pool) : LitVal(LitKind(ty), pool[j]) # LitVal(LitKind(ty), pool[1])
                                                            /\ \A i \in 2..(j - 1) : LitVal(LitKind(ty), pool[i]) = LitVal(LitKind(ty), pool[1])
                         IN {POr(Lit(LitKind(ty), pool[1]), Lit(LitKind(ty), pool[j]))}
\* top-level patterns come positional and by name in reverse declaration order (single field: by name);
\* nested ones positional and reversed
Styles(top, n) == IF n >= 2 THEN {"pos", "rev"} ELSE IF top THEN {"pos", "named"} ELSE {"pos"}
VStyles(v, top) == IF v.fs = <<>> THEN {"none"} ELSE IF v.named THEN Styles(top, Len(v.fs)) ELSE {"pos"}

\* literals offered in nested positions: for int and string one spelling per value (respellings are
\* enumerated for the leaf types themselves), everything for bool, void, float
RECURSIVE DistinctVals(_, _, _)
DistinctVals(t, pool, acc) ==
  IF pool = <<>> THEN acc
  ELSE IF \E i \in 1..Len(acc) : LitVal(t, acc[i]) = LitVal(t, pool[1]) THEN DistinctVals(t, Tail(pool), acc)
  ELSE DistinctVals(t, Tail(pool), Append(acc, pool[1]))
NestedLits(ty, P) == IF ty.k \in {"int", "string"}
                     THEN {Lit(LitKind(ty), s) : s \in RngS(DistinctVals(LitKind(ty), LitPool(ty, P), <<>>))}
                     ELSE LeafLits(ty, P)
\* non-or patterns of depth <= d (leaf types: literals at every depth); sub-positions may carry LeafOr
RECURSIVE BasePats(_, _, _, _)
BasePats(ty, d, top, P) ==
  LET atoms == {Wild, Bnd} IN
  IF IsLeafTy(ty) THEN atoms \cup (IF top THEN LeafLits(ty, P) ELSE NestedLits(ty, P) \cup LeafOr(ty, P))
  ELSE IF d = 0 THEN atoms
  ELSE atoms \cup
    CASE ty.k = "tuple" -> {PTup(s) : s \in SeqsOver([i \in 1..Len(ty.ts) |-> BasePats(ty.ts[i], d - 1, FALSE, P)])}
      [] ty.k = "struct" -> {PStruct(st, s) : st \in Styles(top, Len(ty.fs)),
                                              s \in SeqsOver([i \in 1..Len(ty.fs) |-> BasePats(ty.fs[i].t, d - 1, FALSE, P)])}
      [] ty.k = "enum" -> UNION {{PVar(ty.vs[j].c, st, s) : st \in VStyles(ty.vs[j], top),
                                    s \in SeqsOver([i \in 1..Len(ty.vs[j].fs) |-> BasePats(ty.vs[j].fs[i].t, d - 1, FALSE, P)])}
                                 : j \in 1..Len(ty.vs)}
\* top-level or-patterns `p | q` over the binder-free base patterns, for types with few of them
TopOrs(ty, d, P, maxbase) ==
  LET B == {p \in BasePats(ty, d, TRUE, P) : BinderTys(ty, p) = <<>>}
  IN IF Cardinality(B) > maxbase THEN {} ELSE {POr(pq[1], pq[2]) : pq \in {x \in B \X B : x[1] # x[2]}}
Pats(ty, d, P, maxbase) == BasePats(ty, d, TRUE, P) \cup TopOrs(ty, d, P, maxbase)

\* irrefutable patterns (let / for destructuring): names, `_`, tuples, structs, `nil` for void components
RECURSIVE IrrPats(_, _, _)
IrrPats(ty, d, top) ==
  LET atoms == {Wild, Bnd} IN
  IF ty.k = "void" THEN atoms \cup (IF top THEN {} ELSE {Lit("nil", "nil")})
  ELSE IF d = 0 \/ ty.k \notin {"tuple", "struct"} THEN atoms
  ELSE atoms \cup
    CASE ty.k = "tuple" -> {PTup(s) : s \in SeqsOver([i \in 1..Len(ty.ts) |-> IrrPats(ty.ts[i], d - 1, FALSE)])}
      [] ty.k = "struct" -> {PStruct(st, s) : st \in {"pos", "named", "rev"},
                                              s \in SeqsOver([i \in 1..Len(ty.fs) |-> IrrPats(ty.fs[i].t, d - 1, FALSE)])}

\* ------------------------------------------------------------- concrete syntax
RECURSIVE TyExpr(_)
TyExpr(ty) == CASE IsLeafTy(ty) -> ty.k
                [] ty.k = "tuple" -> "(" \o JoinS([i \in 1..Len(ty.ts) |-> TyExpr(ty.ts[i])], ", ") \o ")"
                [] ty.k = "struct" -> ty.n
                [] ty.k = "enum" -> ty.tx
\* an expression that evaluates to v
RECURSIVE ValExpr(_, _)
ValExpr(ty, v) ==
  CASE ty.k = "bool" -> (IF v.v THEN "true" ELSE "false")
    [] ty.k = "void" -> "nil"
    [] ty.k = "int" -> ToString(v.v)
    [] ty.k = "float" -> (IF DotPos(v.c, 1) = 0 THEN v.c \o ".0" ELSE v.c)
    [] ty.k = "string" -> "\"" \o v.v \o "\""
    [] ty.k = "tuple" -> "(" \o JoinS([i \in 1..Len(ty.ts) |-> ValExpr(ty.ts[i], v.es[i])], ", ") \o ")"
    [] ty.k = "struct" -> ty.n \o "(" \o JoinS([i \in 1..Len(ty.fs) |-> ValExpr(ty.fs[i].t, v.es[i])], ", ") \o ")"
    [] ty.k = "enum" -> LET fs == ty.vs[VarIdx(ty, v.c)].fs
                        IN ty.n \o "." \o v.c \o
                           (IF fs = <<>> THEN "" ELSE "(" \o JoinS([i \in 1..Len(fs) |-> ValExpr(fs[i].t, v.es[i])], ", ") \o ")")
\* what `"" .. v` prints (prelude ToString for builtin types; the ToString implementations that
\* ShowDecls puts into the generated programs for user types print Name(a, b) / Name)
RECURSIVE Show(_, _)
Show(ty, v) ==
  CASE ty.k = "bool" -> (IF v.v THEN "true" ELSE "false")
    [] ty.k = "void" -> "nil"
    [] ty.k = "int" -> ToString(v.v)
    [] ty.k = "float" -> v.c
    [] ty.k = "string" -> v.v
    [] ty.k = "tuple" -> "(" \o JoinS([i \in 1..Len(ty.ts) |-> Show(ty.ts[i], v.es[i])], ", ") \o ")"
    [] ty.k = "struct" -> ty.n \o "(" \o JoinS([i \in 1..Len(ty.fs) |-> Show(ty.fs[i].t, v.es[i])], ", ") \o ")"
    [] ty.k = "enum" -> LET fs == ty.vs[VarIdx(ty, v.c)].fs
                        IN v.c \o (IF fs = <<>> THEN "" ELSE "(" \o JoinS([i \in 1..Len(fs) |-> Show(fs[i].t, v.es[i])], ", ") \o ")")

\* pattern text; names x<n+1>, x<n+2>, ... are given in naming order; returns [s, n]
RECURSIVE PatTxt(_, _, _), PatsTxt(_, _, _, _)
PatsTxt(tys, ps, n, acc) ==      \* -> [ss, n]
  IF Len(acc) = Len(ps) THEN [ss |-> acc, n |-> n]
  ELSE LET i == Len(acc) + 1 r == PatTxt(tys[i], ps[i], n) IN PatsTxt(tys, ps, r.n, Append(acc, r.s))
NamedTxt(fs, ss, st) == LET named == [i \in 1..Len(ss) |-> fs[i].f \o " = " \o ss[i]]
                        IN CASE st = "pos" -> JoinS(ss, ", ") [] st = "named" -> JoinS(named, ", ") [] st = "rev" -> JoinS(RevS(named), ", ")
PatTxt(ty, p, n) ==
  CASE p.k = "wild" -> [s |-> "_", n |-> n]
    [] p.k = "bind" -> [s |-> "x" \o ToString(n + 1), n |-> n + 1]
    [] p.k = "lit" -> [s |-> (IF p.t = "string" THEN "\"" \o p.s \o "\"" ELSE p.s), n |-> n]
    [] p.k = "tup" -> LET r == PatsTxt(ty.ts, p.ps, n, <<>>) IN [s |-> "(" \o JoinS(r.ss, ", ") \o ")", n |-> r.n]
    [] p.k = "struct" -> LET r == PatsTxt(FieldTys(ty.fs), p.ps, n, <<>>)
                         IN [s |-> ty.n \o "(" \o NamedTxt(ty.fs, r.ss, p.st) \o ")", n |-> r.n]
    [] p.k = "var" -> LET fs == ty.vs[VarIdx(ty, p.c)].fs
                          r == PatsTxt(FieldTys(fs), p.ps, n, <<>>)
                      IN [s |-> "." \o p.c \o (IF p.st = "none" THEN "" ELSE "(" \o NamedTxt(fs, r.ss, p.st) \o ")"), n |-> r.n]
    [] p.k = "or" -> LET l == PatTxt(ty, p.l, n) r == PatTxt(ty, p.r, n) IN [s |-> l.s \o " | " \o r.s, n |-> l.n]
    [] p.k = "bad" -> [s |-> "<bad>", n |-> n]

\* declarations of the user types of a type (innermost first), and ToString implementations for them
RECURSIVE UserTypes(_)
UserTypes(ty) ==
  CASE ty.k = "tuple" -> FlatS([i \in 1..Len(ty.ts) |-> UserTypes(ty.ts[i])])
    [] ty.k = "struct" -> FlatS([i \in 1..Len(ty.fs) |-> UserTypes(ty.fs[i].t)]) \o <<ty>>
    [] ty.k = "enum" -> FlatS([j \in 1..Len(ty.vs) |-> FlatS([i \in 1..Len(ty.vs[j].fs) |-> UserTypes(ty.vs[j].fs[i].t)])])
                        \o (IF ty.builtin THEN <<>> ELSE <<ty>>)
    [] OTHER -> <<>>
VariantDecl(v) == "  | " \o v.c \o (IF v.fs = <<>> THEN ""
                    ELSE "(" \o JoinS([i \in 1..Len(v.fs) |-> (IF v.named THEN v.fs[i].f \o ": " ELSE "") \o TyExpr(v.fs[i].t)], ", ") \o ")")
TypeDecl(ty) ==
  IF ty.k = "struct"
  THEN <<"type " \o ty.n \o " = {">> \o [i \in 1..Len(ty.fs) |-> "  " \o ty.fs[i].f \o ": " \o TyExpr(ty.fs[i].t)] \o <<"}">>
  ELSE <<"type " \o ty.n \o " =">> \o [j \in 1..Len(ty.vs) |-> VariantDecl(ty.vs[j])]
ShowArm(v) == LET n == Len(v.fs)
                  args == [i \in 1..n |-> "a" \o ToString(i)]
              IN "      ." \o v.c \o (IF n = 0 THEN "" ELSE "(" \o JoinS(args, ", ") \o ")") \o " -> \"" \o v.c \o
                 (IF n = 0 THEN "\"" ELSE "(\" .. " \o JoinS(args, " .. \", \" .. ") \o " .. \")\"")
ShowDecl(ty) ==
  <<"implement ToString for " \o ty.n \o " {", "  fn str(self) -> string {">> \o
  (IF ty.k = "struct"
   THEN <<"    \"" \o ty.n \o "(\" .. " \o JoinS([i \in 1..Len(ty.fs) |-> "self." \o ty.fs[i].f], " .. \", \" .. ") \o " .. \")\"">>
   ELSE <<"    match self {">> \o [j \in 1..Len(ty.vs) |-> ShowArm(ty.vs[j])] \o <<"    }">>) \o
  <<"  }", "}">>

\* ------------------------------------------------------------- reported witnesses (pure syntax trees)
\* syn: [k "wild"] | [k "num", s] | [k "word", w, args] (variant `W of a, b`, `true`, string text)
\*      | [k "tup", ps] (`()` is the empty tuple) | [k "struct", n, fs: <<[f, p]>>]
\* Elab reads a syntax tree as a pattern of type ty; BadPat if it is not a pattern of that type.
\* lenient: a constructor followed only by `_`s denotes all values of that constructor, whatever the number
\* of `_`s (the compiler prints one `_` per type argument of a generic enum: `none of _`, `ok of _, _`).
RECURSIVE Elab(_, _, _)
Elab(ty, syn, lenient) ==
  LET ElabAll(tys, ss) == [i \in 1..Len(ss) |-> Elab(tys[i], ss[i], lenient)]
      AllGood(ps) == \A i \in 1..Len(ps) : ps[i] # BadPat
  IN
  IF syn.k = "wild" THEN Wild
  ELSE CASE ty.k = "bool" -> IF syn.k = "word" /\ syn.w \in {"true", "false"} /\ syn.args = <<>> THEN Lit("bool", syn.w) ELSE BadPat
    [] ty.k = "void" -> IF syn.k = "tup" /\ syn.ps = <<>> THEN Lit("nil", "nil") ELSE BadPat
    [] ty.k = "int" -> IF syn.k = "num" /\ IsNatStr(syn.s) THEN Lit("int", syn.s) ELSE BadPat
    [] ty.k = "float" -> IF syn.k = "num" /\ IsFloatStr(syn.s) THEN Lit("float", syn.s) ELSE BadPat
    [] ty.k = "string" -> IF syn.k = "word" /\ syn.args = <<>> THEN Lit("string", syn.w) ELSE BadPat
    [] ty.k = "tuple" -> IF syn.k = "tup" /\ Len(syn.ps) = Len(ty.ts)
                         THEN LET ps == ElabAll(ty.ts, syn.ps) IN IF AllGood(ps) THEN PTup(ps) ELSE BadPat
                         ELSE BadPat
    [] ty.k = "struct" -> IF syn.k = "struct" /\ syn.n = ty.n /\ Len(syn.fs) = Len(ty.fs)
                             /\ \A i \in 1..Len(ty.fs) : \E j \in 1..Len(syn.fs) : syn.fs[j].f = ty.fs[i].f
                          THEN LET ps == [i \in 1..Len(ty.fs) |->
                                            Elab(ty.fs[i].t, syn.fs[CHOOSE j \in 1..Len(syn.fs) : syn.fs[j].f = ty.fs[i].f].p, lenient)]
                               IN IF AllGood(ps) THEN PStruct("named", ps) ELSE BadPat
                          ELSE BadPat
    [] ty.k = "enum" ->
         IF syn.k = "word" /\ HasVariant(ty, syn.w)
         THEN LET fs == ty.vs[VarIdx(ty, syn.w)].fs
                  n == Len(fs)
                  allw == [i \in 1..n |-> Wild]
              IN IF syn.args = <<>> THEN PVar(syn.w, "pos", allw)      \* bare constructor name: all its values
                 ELSE IF lenient /\ \A i \in 1..Len(syn.args) : syn.args[i].k = "wild" THEN PVar(syn.w, "pos", allw)
                 ELSE IF Len(syn.args) # 1 \/ n = 0 THEN BadPat
                 ELSE IF n = 1 THEN LET q == Elab(fs[1].t, syn.args[1], lenient) IN IF q = BadPat THEN BadPat ELSE PVar(syn.w, "pos", <<q>>)
                 ELSE IF syn.args[1].k = "wild" THEN PVar(syn.w, "pos", allw)
                 ELSE IF syn.args[1].k = "tup" /\ Len(syn.args[1].ps) = n
                      THEN LET ps == ElabAll(FieldTys(fs), syn.args[1].ps) IN IF AllGood(ps) THEN PVar(syn.w, "pos", ps) ELSE BadPat
                      ELSE BadPat
         ELSE BadPat
=============================================================================
