----------------------------- MODULE AssignRules -----------------------------
(***************************************************************************)
(* Which bindings may be assigned (variables.md: "Trying to reassign a     *)
(* `let` is a compile error"; operators.md "Assignment": "Only `var`       *)
(* bindings, array elements, and struct fields can be assigned to", and    *)
(* `x op= e` means `x = x op e`; lambdas.md: "Captured values ... cannot   *)
(* be reassigned").                                                        *)
(*                                                                         *)
(* Rule(form) is the table of property C20:                                *)
(*   diag    the program must be rejected with a diagnostic                *)
(*   effect  the program is accepted and the assignment takes effect; what *)
(*           that means is defined by AbraSem                              *)
(*   either  rejected with a diagnostic, or accepted with the plain effect *)
(*           (the binding holds the new value for the rest of its scope)   *)
(* and in no case may the checker or the compiler crash.                   *)
(***************************************************************************)
EXTENDS AbraGen, Cases

Ops == {"=", "+=", "-=", "*=", "/=", "%="}
Tys == {"int", "float"}
Forms == {"let", "lettup", "var", "vartup", "arrelem", "field", "arrfield", "fieldarr",
          "for-count", "for-arr", "param", "lamparam", "match-some", "match-bare",
          "cap-var", "cap-var-wo", "cap-let", "cap-param",
          \* the initializer itself declares bindings (block / if-else / match arm / lambda body with a nested let or var)
          "var-blk", "var-if", "var-match", "var-after-lam", "let-blk", "let-if",
          \* the target's static type is a type parameter (the assignment stands in a generic function that is called at
          \* int and at float); by C22's principle it behaves like the function written by hand for that type
          "gen-var", "gen-elem", "gen-param",
          \* the right-hand side never yields a value (a call of panic): the program is accepted and stops there
          "rhs-never",
          \* the right-hand side has type void but an effect of its own: it still runs
          "rhs-void"}

Rule(form) ==
  CASE form \in {"let", "lettup", "let-blk", "let-if"} -> "diag"                  \* immutable binding
    [] form \in {"cap-var", "cap-var-wo", "cap-let", "cap-param"} -> "diag"      \* variable captured by a lambda
    [] form \in {"var", "vartup", "arrelem", "field", "arrfield", "fieldarr", "var-blk", "var-if", "var-match",
                 "var-after-lam", "gen-var", "gen-elem", "rhs-never", "rhs-void"} -> "effect"
    [] form \in {"for-count", "for-arr", "param", "lamparam", "match-some", "match-bare", "gen-param"} -> "either"

\* ---------------------------------------------------------------- values
V0(ty) == IF ty = "int" THEN I(7) ELSE F(15, 1)          \* 7 / 7.5: the value of the binding
W0(ty) == IF ty = "int" THEN I(1) ELSE F(3, 1)           \* 1 / 1.5: an unrelated neighbour
Rhs(ty, z) == IF z THEN I(0) ELSE IF ty = "int" THEN I(3) ELSE F(2, 0)   \* z: a zero right-hand side (int division only)
\* float `%` is outside the reference model (AbraSem has no float modulo)
InModel(c) == ~(c.ty = "float" /\ (c.op = "%=" \/ c.op2 = "%="))

PtT == [k |-> "struct", n |-> "Pt", fs |-> <<"fi", "ff">>, tys |-> <<"int", "float">>, ds |-> <<NoD, NoD>>]
HoldT(ty) == [k |-> "struct", n |-> "Hold", fs |-> <<"items">>, tys |-> <<"array<" \o ty \o ">">>, ds |-> <<NoD>>]
NewPt == [k |-> "new", n |-> "Pt", args |-> <<Arg(I(7)), Arg(F(15, 1))>>]
Fld(o, f) == [k |-> "fld", o |-> o, f |-> f]
Idx(a, i) == [k |-> "idx", a |-> a, i |-> i]
Arr(es) == [k |-> "arr", es |-> es]
Tup(es) == [k |-> "tup", es |-> es]
Blk(ss) == [k |-> "blk", ss |-> ss]
Lam0(ss) == [k |-> "lam", ps |-> <<>>, body |-> Blk(ss)]
FieldOf(ty) == IF ty = "int" THEN "fi" ELSE "ff"

\* the assignment statement(s) under test on target expression t
Asg(c, t) == <<Assign(t, c.op, Rhs(c.ty, c.zero))>> \o (IF c.op2 = "none" THEN <<>> ELSE <<Assign(t, c.op2, Rhs(c.ty, FALSE))>>)

\* Body(c) = [types, fns, ss]: ss are the statements of the context (function body or top level)
Body(c) ==
  LET ty == c.ty  x == V("x") IN
  CASE c.form = "let"     -> [types |-> <<>>, fns |-> <<>>, ss |-> <<Let("x", V0(ty))>> \o Asg(c, x) \o <<PrintS(x)>>]
    [] c.form = "var"     -> [types |-> <<>>, fns |-> <<>>, ss |-> <<Var("x", V0(ty))>> \o Asg(c, x) \o <<PrintS(x)>>]
    [] c.form = "rhs-void" ->
         [types |-> <<>>,
          fns |-> <<[n |-> "eff", ps |-> <<>>, ret |-> "", body |-> <<PrintS(S("side"))>>]>>,
          ss |-> <<Var("u", [k |-> "nil"]), Assign(V("u"), "=", Call("eff", <<>>)), PrintS(S("after")), Var("x", V0(ty))>> \o Asg(c, x) \o <<PrintS(x)>>]
    [] c.form = "rhs-never" ->
         [types |-> <<>>, fns |-> <<>>,
          ss |-> <<Var("x", V0(ty)), PrintS(S("before")), Assign(x, c.op, [k |-> "panic", e |-> S("boom")]), PrintS(x)>>]
    [] c.form \in {"gen-var", "gen-elem", "gen-param"} ->
         \* fn g(a: T Num, b: T) -> T { <target initialised from a>; <target> op= b; <target> }   called as g(7, 3) / g(7.5, 2.0)
         LET b == V("b")
             asg(t) == <<Assign(t, c.op, b)>> \o (IF c.op2 = "none" THEN <<>> ELSE <<Assign(t, c.op2, b)>>)
             body == CASE c.form = "gen-var" -> <<Var("x", V("a"))>> \o asg(x) \o <<ExprS(x)>>
                       [] c.form = "gen-elem" -> <<Let("xs", Arr(<<V("a"), V("a")>>))>> \o asg(Idx(V("xs"), I(0))) \o <<ExprS(Idx(V("xs"), I(0)))>>
                       [] c.form = "gen-param" -> asg(V("a")) \o <<ExprS(V("a"))>>
         IN [types |-> <<>>,
             fns |-> <<[n |-> "g", ps |-> <<[n |-> "a", ty |-> "T Num", d |-> NoD], [n |-> "b", ty |-> "T", d |-> NoD]>>, ret |-> "T", body |-> body]>>,
             ss |-> <<PrintS(Call("g", <<V0(ty), Rhs(ty, c.zero)>>))>>]
    [] c.form \in {"var-blk", "let-blk"} ->      \* the initializer is a block that declares a binding of the other kind
         LET inner == IF c.form = "var-blk" THEN Let("b", V0(ty)) ELSE Var("b", V0(ty))
             init == Blk(<<inner, ExprS(V("b"))>>) IN
         [types |-> <<>>, fns |-> <<>>,
          ss |-> <<(IF c.form = "var-blk" THEN Var("x", init) ELSE Let("x", init))>> \o Asg(c, x) \o <<PrintS(x)>>]
    [] c.form \in {"var-if", "let-if"} ->
         LET inner == IF c.form = "var-if" THEN Let("b", V0(ty)) ELSE Var("b", V0(ty))
             init == [k |-> "ife", c |-> Bl(TRUE), t |-> Blk(<<inner, ExprS(V("b"))>>), e |-> Blk(<<ExprS(W0(ty))>>)] IN
         [types |-> <<>>, fns |-> <<>>,
          ss |-> <<(IF c.form = "var-if" THEN Var("x", init) ELSE Let("x", init))>> \o Asg(c, x) \o <<PrintS(x)>>]
    [] c.form = "var-match" ->
         LET init == [k |-> "match", s |-> Some(V0(ty)), arms |-> <<
                        [p |-> [k |-> "var", c |-> "some", ps |-> <<PB("q")>>], e |-> Blk(<<Let("b", V("q")), ExprS(V("b"))>>)],
                        [p |-> [k |-> "var", c |-> "none", ps |-> <<>>], e |-> Blk(<<ExprS(W0(ty))>>)] >>] IN
         [types |-> <<>>, fns |-> <<>>, ss |-> <<Var("x", init)>> \o Asg(c, x) \o <<PrintS(x)>>]
    [] c.form = "var-after-lam" ->               \* a tuple whose first component is a lambda with its own let
         LET lam == [k |-> "lam", ps |-> <<"p">>, ptys |-> <<ty>>, body |-> Blk(<<Let("b", V("p")), ExprS(V("b"))>>)] IN
         [types |-> <<>>, fns |-> <<>>,
          ss |-> <<[k |-> "var", p |-> [k |-> "tup", ps |-> <<PB("f"), PB("x")>>], e |-> Tup(<<lam, V0(ty)>>), ty |-> ""]>>
                 \o Asg(c, x) \o <<PrintS(x), PrintS(Call("f", <<W0(ty)>>))>>]
    [] c.form \in {"lettup", "vartup"} ->
         [types |-> <<>>, fns |-> <<>>,
          ss |-> <<[k |-> IF c.form = "lettup" THEN "let" ELSE "var", p |-> [k |-> "tup", ps |-> <<PB("x"), PB("y")>>],
                    e |-> Tup(<<V0(ty), W0(ty)>>), ty |-> ""]>> \o Asg(c, x) \o <<PrintS(x), PrintS(V("y"))>>]
    [] c.form = "arrelem" -> [types |-> <<>>, fns |-> <<>>,
                              ss |-> <<Let("arr", Arr(<<V0(ty), W0(ty)>>))>> \o Asg(c, Idx(V("arr"), I(0))) \o <<PrintS(V("arr"))>>]
    [] c.form = "field"   -> [types |-> <<PtT>>, fns |-> <<>>,
                              ss |-> <<Let("pt", NewPt)>> \o Asg(c, Fld(V("pt"), FieldOf(ty))) \o
                                     <<PrintS(Fld(V("pt"), "fi")), PrintS(Fld(V("pt"), "ff"))>>]
    [] c.form = "arrfield" -> [types |-> <<PtT>>, fns |-> <<>>,
                               ss |-> <<Let("pts", Arr(<<NewPt>>))>> \o Asg(c, Fld(Idx(V("pts"), I(0)), FieldOf(ty))) \o
                                      <<PrintS(Fld(Idx(V("pts"), I(0)), FieldOf(ty)))>>]
    [] c.form = "fieldarr" -> [types |-> <<HoldT(ty)>>, fns |-> <<>>,
                               ss |-> <<Let("h", [k |-> "new", n |-> "Hold", args |-> <<Arg(Arr(<<V0(ty), W0(ty)>>))>>])>> \o
                                      Asg(c, Idx(Fld(V("h"), "items"), I(0))) \o <<PrintS(Fld(V("h"), "items"))>>]
    [] c.form = "for-count" -> [types |-> <<>>, fns |-> <<>>,
                                ss |-> <<[k |-> "for", p |-> PB("x"), it |-> [k |-> "count", e |-> I(2)], body |-> Asg(c, x) \o <<PrintS(x)>>]>>]
    [] c.form = "for-arr" -> [types |-> <<>>, fns |-> <<>>,
                              ss |-> <<[k |-> "for", p |-> PB("x"), it |-> [k |-> "array", e |-> Arr(<<V0(ty), W0(ty)>>)],
                                        body |-> Asg(c, x) \o <<PrintS(x)>>]>>]
    [] c.form = "param"   -> [types |-> <<>>,
                              fns |-> <<[n |-> "g", ps |-> <<[n |-> "x", ty |-> ty, d |-> NoD]>>, ret |-> "", body |-> Asg(c, x) \o <<PrintS(x)>>]>>,
                              ss |-> <<ExprS(Call("g", <<V0(ty)>>))>>]
    [] c.form = "lamparam" -> [types |-> <<>>, fns |-> <<>>,
                               ss |-> <<Let("f", [k |-> "lam", ps |-> <<"x">>, ptys |-> <<ty>>, body |-> Blk(Asg(c, x) \o <<ExprS(x)>>)]),
                                        PrintS(Call("f", <<V0(ty)>>))>>]
    [] c.form = "match-some" ->
         [types |-> <<>>, fns |-> <<>>,
          ss |-> <<ExprS([k |-> "match", s |-> Some(V0(ty)), arms |-> <<
                      [p |-> [k |-> "var", c |-> "some", ps |-> <<PB("x")>>], e |-> Blk(Asg(c, x) \o <<PrintS(x)>>)],
                      [p |-> [k |-> "var", c |-> "none", ps |-> <<>>], e |-> Blk(<<PrintS(S("none"))>>)] >>])>>]
    [] c.form = "match-bare" ->
         [types |-> <<>>, fns |-> <<>>,
          ss |-> <<ExprS([k |-> "match", s |-> V0(ty), arms |-> << [p |-> PB("x"), e |-> Blk(Asg(c, x) \o <<PrintS(x)>>)] >>])>>]
    [] c.form = "cap-var" -> [types |-> <<>>, fns |-> <<>>,
                              ss |-> <<Var("x", V0(ty)), Let("f", Lam0(Asg(c, x) \o <<ExprS(x)>>)), PrintS(Call("f", <<>>)), PrintS(x)>>]
    [] c.form = "cap-var-wo" -> [types |-> <<>>, fns |-> <<>>,
                                 ss |-> <<Var("x", V0(ty)), Let("f", Lam0(Asg(c, x))), ExprS(Call("f", <<>>)), PrintS(x)>>]
    [] c.form = "cap-let" -> [types |-> <<>>, fns |-> <<>>,
                              ss |-> <<Let("x", V0(ty)), Let("f", Lam0(Asg(c, x) \o <<ExprS(x)>>)), PrintS(Call("f", <<>>))>>]
    [] c.form = "cap-param" -> [types |-> <<>>,
                                fns |-> <<[n |-> "g", ps |-> <<[n |-> "x", ty |-> ty, d |-> NoD]>>, ret |-> "",
                                           body |-> <<Let("f", Lam0(Asg(c, x) \o <<ExprS(x)>>)), PrintS(Call("f", <<>>))>>]>>,
                                ss |-> <<ExprS(Call("g", <<V0(ty)>>))>>]

ProgOf(c) ==
  LET b == Body(c) IN
  IF c.ctx = "main" THEN File1(b.types, b.fns, b.ss \o <<PrintS(S("end"))>>)
  ELSE File1(b.types, b.fns \o <<[n |-> "host", ps |-> <<>>, ret |-> "", body |-> b.ss]>>,
             <<ExprS(Call("host", <<>>)), PrintS(S("end"))>>)

\* ---------------------------------------------------------------- the space
ShapeOK(c) ==
  /\ (c.form \in {"gen-var", "gen-elem", "gen-param"} => c.op # "%=" /\ c.op2 # "%=" /\ c.op # "=" )
  /\ (c.form = "rhs-never" => c.op2 = "none" /\ ~c.zero)
  /\ (c.form = "for-count" => c.ty = "int")
  /\ (c.zero => c.ty = "int" /\ c.op \in {"/=", "%="} /\ c.op2 = "none")
Shapes(withPairs) ==
  {c \in [form : Forms, op : Ops, op2 : IF withPairs THEN Ops \cup {"none"} ELSE {"none"}, ty : Tys, ctx : {"main", "fn"}, zero : BOOLEAN] :
     ShapeOK(c)}

OpName(op) == CASE op = "=" -> "set" [] op = "+=" -> "add" [] op = "-=" -> "sub" [] op = "*=" -> "mul" [] op = "/=" -> "div"
                [] op = "%=" -> "mod" [] op = "none" -> ""
IdOf(c) == c.form \o "." \o OpName(c.op) \o (IF c.op2 = "none" THEN "" ELSE "-" \o OpName(c.op2)) \o "." \o c.ty \o "." \o c.ctx \o
           (IF c.zero THEN ".zero" ELSE "")

Rejected == [compile |-> "diag", check |-> "diag"]
CaseOf(c) ==
  LET L == Layout(ProgOf(c))
      rule == Rule(c.form)
      base == [id |-> IdOf(c), form |-> c.form, op |-> c.op, op2 |-> c.op2, ty |-> c.ty, ctx |-> c.ctx, zero |-> c.zero, rule |-> rule,
               key |-> "C20|" \o c.form,
               files |-> FilesOf(L.texts), check |-> TRUE]
  IN IF ~InModel(c) THEN base @@ [inmodel |-> FALSE, expect |-> <<>>]     \* (also for diag forms: the diagnostic could be about `%`)
     ELSE IF rule = "diag" THEN base @@ [inmodel |-> TRUE, expect |-> Rejected]
     ELSE LET r == Run(L.sem, 100)
              eff == [compile |-> "ok", check |-> "ok"] @@ ExpectOf(r)
          IN base @@ [inmodel |-> r.inmodel, expect |-> eff] @@ (IF rule = "either" THEN [alts |-> <<Rejected>>] ELSE <<>>)
=============================================================================
