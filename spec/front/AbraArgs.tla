----------------------------- MODULE AbraArgs -----------------------------
(***************************************************************************)
(* Named and default arguments (functions.md "Default arguments" / "Named  *)
(* arguments", structs.md "Default field values" / "Named field arguments",*)
(* enums.md "Named fields and defaults", member_functions.md "Two ways to  *)
(* call").                                                                 *)
(*                                                                         *)
(* A call site is a sequence of argument labels ("" = positional, else the *)
(* name written before `=`).  The documentation fixes                      *)
(*   - which label sequences are calls at all (WellFormed): positional     *)
(*     arguments first and not more than there are parameters, every name  *)
(*     is a parameter, no parameter is given twice, every parameter        *)
(*     without default is given;                                           *)
(*   - what a well-formed call means: the positional call whose i-th       *)
(*     argument is the i-th positional argument, else the argument named   *)
(*     like parameter i, else the default of parameter i                   *)
(*     (AbraSem!ArgOrder); arguments are evaluated in that order.          *)
(* A member call  x.m(args)  is the call  m(x, args)  of the function whose*)
(* first parameter is `self`; `T.m(x, args)` is the same call; a variant   *)
(* constructor with named fields takes arguments "the same way you'd       *)
(* construct a struct".  Everything that is not well-formed must be        *)
(* rejected with a diagnostic.                                             *)
(***************************************************************************)
EXTENDS AbraGen, Cases

PNames == <<"pa", "pb", "pc">>
Unk == "pz"                                  \* a name that is never a parameter
DefVal(i) == 10 * i
NamesOf(n) == {PNames[i] : i \in 1..n}

\* dk: "lit" = literal defaults, "call" = defaults that call a top-level function (observable evaluation)
\*     "tup" = the defaulted parameters have type (int, int) and a tuple of literals as default (a default that is neither a
\*             scalar literal nor a call)
TupE(a, b) == [k |-> "tup", es |-> <<a, b>>]
DefExpr(i, dk) == CASE dk = "lit" -> I(DefVal(i)) [] dk = "call" -> Call("tr", <<I(DefVal(i))>>) [] dk = "tup" -> TupE(I(DefVal(i)), I(1))
Params(n, D, dk) == [i \in 1..n |-> [n |-> PNames[i], ty |-> IF dk = "tup" /\ i \in D THEN "(int, int)" ELSE "int",
                                      d |-> IF i \in D THEN DefExpr(i, dk) ELSE NoD]]

\* the k-th argument written at the call site is tr(k): it prints k when (and if) it is evaluated
\* (paired with 2 where the parameter it goes to has the tuple type)
PIndex0(nm) == IF \E i \in 1..3 : PNames[i] = nm THEN CHOOSE i \in 1..3 : PNames[i] = nm ELSE 0
TargetOf(labels, k) == IF labels[k] = "" THEN k ELSE PIndex0(labels[k])
ArgsOfD(labels, D, dk) ==
  [k \in 1..Len(labels) |-> [n |-> labels[k],
                              e |-> IF dk = "tup" /\ TargetOf(labels, k) \in D THEN TupE(Call("tr", <<I(k)>>), I(2)) ELSE Call("tr", <<I(k)>>)]]
ArgsOf(labels) == ArgsOfD(labels, {}, "lit")

\* ---------------------------------------------------------------- which label sequences are calls
Idx(labels) == 1..Len(labels)
LeadPos(labels) == IF \A k \in Idx(labels) : labels[k] = "" THEN Len(labels)
                   ELSE (CHOOSE k \in Idx(labels) : labels[k] # "" /\ \A j \in 1..(k - 1) : labels[j] = "") - 1
PosAfterNamed(labels) == \E i, j \in Idx(labels) : i < j /\ labels[i] # "" /\ labels[j] = ""
UnknownName(labels, n) == \E k \in Idx(labels) : labels[k] # "" /\ labels[k] \notin NamesOf(n)
ExtraPositional(labels, n) == LeadPos(labels) > n
Duplicate(labels, n) == \/ \E i, j \in Idx(labels) : i < j /\ labels[i] # "" /\ labels[i] = labels[j]
                        \/ \E k \in Idx(labels), i \in 1..n : i <= LeadPos(labels) /\ labels[k] = PNames[i]
MissingRequired(labels, n, D) == \E i \in (1..n) \ D : i > LeadPos(labels) /\ \A k \in Idx(labels) : labels[k] # PNames[i]

Misuse(labels, n, D) ==
  (IF UnknownName(labels, n) THEN {"unknown"} ELSE {}) \cup
  (IF ExtraPositional(labels, n) THEN {"extra"} ELSE {}) \cup
  (IF Duplicate(labels, n) THEN {"duplicate"} ELSE {}) \cup
  (IF MissingRequired(labels, n, D) THEN {"missing"} ELSE {}) \cup
  (IF PosAfterNamed(labels) THEN {"posafternamed"} ELSE {})
WellFormed(labels, n, D) == Misuse(labels, n, D) = {}

MisuseOrder == <<"unknown", "extra", "duplicate", "missing", "posafternamed">>
CatOf(mis) == IF mis = {} THEN "ok" ELSE JoinS(SelectSeq(MisuseOrder, LAMBDA m : m \in mis), "+")

\* what a well-formed call uses: named arguments, reordering (a named argument written before one of an earlier
\* parameter), omitted defaults
UsesNamed(labels) == \E k \in Idx(labels) : labels[k] # ""
PIndex(nm) == IF \E i \in 1..3 : PNames[i] = nm THEN CHOOSE i \in 1..3 : PNames[i] = nm ELSE 0
Reordered(labels) == \E i, j \in Idx(labels) : i < j /\ labels[i] # "" /\ labels[j] # "" /\ PIndex(labels[i]) > PIndex(labels[j])
OmitsDefault(labels, n) == \E i \in 1..n : i > LeadPos(labels) /\ \A k \in Idx(labels) : labels[k] # PNames[i]
FeatOf(labels, n) == (IF UsesNamed(labels) THEN "N" ELSE "") \o (IF Reordered(labels) THEN "R" ELSE "") \o
                     (IF OmitsDefault(labels, n) THEN "D" ELSE "")

\* ---------------------------------------------------------------- programs
RECURSIVE ShowE(_, _)
ShowE(tag, es) == IF es = <<>> THEN S(tag)
                  ELSE Bin("..", Bin("..", ShowE(tag, SubSeq(es, 1, Len(es) - 1)), S(" ")), es[Len(es)])
PVars(ps) == [i \in 1..Len(ps) |-> V(ps[i].n)]
RParams(ps) == JoinS([i \in 1..Len(ps) |-> RParam(ps[i])], ", ")

TrLines == <<"fn tr(k: int) -> int {", "  println(k)", "  k", "}">>
TrDef == [n |-> "tr", ps |-> <<[n |-> "k", ty |-> "int", d |-> NoD]>>, ret |-> "int",
          body |-> <<PrintS(V("k")), ExprS(V("k"))>>, file |-> "main.abra", ln |-> 1]
FnD(name, ps, body) == [n |-> name, ps |-> ps, ret |-> "", body |-> body, file |-> "main.abra", ln |-> 1]
EndS == PrintS(S("end"))
SemOf(fns, structs, main) == [fns |-> fns, structs |-> structs, main |-> main, mainfile |-> "main.abra"]
BoxT == [k |-> "struct", n |-> "Box", fs |-> <<"v">>, tys |-> <<"int">>, ds |-> <<NoD>>]
SelfP == [n |-> "self", ty |-> "", d |-> NoD]
XVars(n) == [i \in 1..n |-> V("x" \o ToString(i))]

Kinds == {"free", "member", "memberq", "struct", "variant", "variantdot"}
MinArity(kind) == IF kind \in {"free", "member", "memberq"} THEN 0 ELSE 1

\* Prog(kind, ps, args) = [lines, sem]: concrete text and the reference-semantics program it denotes
Prog(kind, ps, args) ==
  CASE kind = "free" ->
         LET show == ShowE("fa", PVars(ps)) IN
         [lines |-> TrLines \o <<"fn fa(" \o RParams(ps) \o ") {", "  println(" \o RE(show, 0) \o ")", "}",
                                 "fa(" \o RArgs(args) \o ")", "println(\"end\")">>,
          sem |-> SemOf(<<TrDef, FnD("fa", ps, <<PrintS(show)>>)>>, <<>>,
                        <<ExprS([k |-> "call", f |-> "fa", args |-> args]), EndS>>)]
    [] kind \in {"member", "memberq"} ->
         LET show == ShowE("mf", <<[k |-> "fld", o |-> V("self"), f |-> "v"]>> \o PVars(ps))
             call == IF kind = "member" THEN "bx.mf(" \o RArgs(args) \o ")"
                     ELSE "Box.mf(" \o RArgs(<<Arg(V("bx"))>> \o args) \o ")"
         IN
         [lines |-> TrLines \o <<RType(BoxT), "extend Box {",
                                 "  fn mf(" \o RParams(<<SelfP>> \o ps) \o ") {", "    println(" \o RE(show, 0) \o ")", "  }", "}",
                                 "let bx = Box(7)", call, "println(\"end\")">>,
          \* x.m(args) = m(x, args): "the value before the dot is passed as the first argument"
          sem |-> SemOf(<<TrDef, FnD("mf", <<SelfP>> \o ps, <<PrintS(show)>>)>>, <<BoxT>>,
                        <<Let("bx", [k |-> "new", n |-> "Box", args |-> <<Arg(I(7))>>]),
                          ExprS([k |-> "call", f |-> "mf", args |-> <<Arg(V("bx"))>> \o args]), EndS>>)]
    [] kind = "struct" ->
         LET ty == [k |-> "struct", n |-> "Rec", fs |-> [i \in 1..Len(ps) |-> ps[i].n], tys |-> [i \in 1..Len(ps) |-> "int"],
                    ds |-> [i \in 1..Len(ps) |-> ps[i].d]]
             show == ShowE("Rec", [i \in 1..Len(ps) |-> [k |-> "fld", o |-> V("r"), f |-> ps[i].n]])
             new == [k |-> "new", n |-> "Rec", args |-> args]
         IN
         [lines |-> TrLines \o <<RType(ty), "fn show(r: Rec) {", "  println(" \o RE(show, 0) \o ")", "}",
                                 "show(" \o RE(new, 0) \o ")", "println(\"end\")">>,
          sem |-> SemOf(<<TrDef, FnD("show", <<[n |-> "r", ty |-> "Rec", d |-> NoD]>>, <<PrintS(show)>>)>>, <<ty>>,
                        <<ExprS(Call("show", <<new>>)), EndS>>)]
    [] kind \in {"variant", "variantdot"} ->
         LET n == Len(ps)
             show == ShowE("Vt", XVars(n))
             pat == [k |-> "var", c |-> "Vt", ps |-> [i \in 1..n |-> PB("x" \o ToString(i))]]
             ctor == (IF kind = "variant" THEN "Shp" ELSE "") \o ".Vt(" \o RArgs(args) \o ")"
             \* a variant constructor takes its arguments "the same way you'd construct a struct"
             val == [k |-> "variant", q |-> "Shp", c |-> "Vt", es |-> ArgOrder(ps, args, 1, NPos(args), <<>>)]
             m == [k |-> "match", s |-> V("s"), arms |-> <<
                      [p |-> pat, e |-> [k |-> "blk", ss |-> <<PrintS(show)>>]],
                      [p |-> [k |-> "var", c |-> "Other", ps |-> <<>>], e |-> [k |-> "blk", ss |-> <<PrintS(S("other"))>>]] >>]
         IN
         [lines |-> TrLines \o <<"type Shp = | Vt(" \o RParams(ps) \o ") | Other",
                                 "fn show(s: Shp) {", "  match s {",
                                 "    " \o RP(pat) \o " -> println(" \o RE(show, 0) \o ")",
                                 "    .Other -> println(\"other\")", "  }", "}",
                                 "show(" \o ctor \o ")", "println(\"end\")">>,
          sem |-> SemOf(<<TrDef, FnD("show", <<[n |-> "s", ty |-> "Shp", d |-> NoD]>>, <<ExprS(m)>>)>>, <<>>,
                        <<ExprS(Call("show", <<val>>)), EndS>>)]

\* ---------------------------------------------------------------- cases
Bits(n, D) == JoinS([i \in 1..n |-> IF i \in D THEN "1" ELSE "0"], "")
LabelStr(labels) == JoinS([k \in 1..Len(labels) |-> IF labels[k] = "" THEN "_" ELSE labels[k]], ".")

\* input classes by which deviations are keyed (the driver appends the observed outcome class).  The qualified member
\* call and the leading-dot constructor come first: on the baseline tree they ignore argument names altogether.
KindFamily(kind) == IF kind = "memberq" THEN "member-qualified" ELSE "variant-leading-dot"
FamilyOf(kind, dk, labels, n, D) ==
  LET mis == Misuse(labels, n, D) IN
  IF kind \in {"memberq", "variantdot"} /\ UsesNamed(labels) THEN KindFamily(kind) \o "|named"
  ELSE IF "unknown" \in mis THEN "unknown-name"
  ELSE IF "extra" \in mis THEN "extra-positional"
  ELSE IF mis # {} THEN "misuse|" \o CatOf(mis) \o "|" \o kind
  ELSE IF dk = "call" /\ OmitsDefault(labels, n) THEN "default-is-call"
  ELSE IF kind \in {"memberq", "variantdot"} /\ OmitsDefault(labels, n) THEN KindFamily(kind) \o "|default-omitted"
  ELSE "accepted|" \o kind

CaseOf(kind, n, D, dk, labels) ==
  LET ps == Params(n, D, dk)
      args == ArgsOfD(labels, D, dk)
      mis == Misuse(labels, n, D)
      P == Prog(kind, ps, args)
      id == kind \o "." \o ToString(n) \o "." \o Bits(n, D) \o (CASE dk = "lit" -> "" [] dk = "call" -> "c" [] dk = "tup" -> "t") \o "." \o LabelStr(labels)
      base == [id |-> id, kind |-> kind, arity |-> n, defaults |-> Bits(n, D), dkind |-> dk, shape |-> LabelStr(labels),
               cat |-> CatOf(mis), feat |-> FeatOf(labels, n),
               key |-> "C18|" \o FamilyOf(kind, dk, labels, n, D),
               files |-> ("main.abra" :> JoinLines(P.lines))]
  IN IF mis # {} THEN base @@ [inmodel |-> TRUE, expect |-> [compile |-> "diag"]]
     ELSE LET r == Run(P.sem, 100) IN
          base @@ [inmodel |-> r.inmodel, expect |-> [compile |-> "ok"] @@ ExpectOf(r)] @@
          \* the reference does not say whether a default may be more than a literal: rejecting it is allowed, crashing is not
          (IF dk \in {"call", "tup"} /\ D # {} THEN [alts |-> <<[compile |-> "diag"]>>] ELSE <<>>)

Seqs(A, L) == UNION {[1..m -> A] : m \in 0..L}
Alphabet(n) == {""} \cup NamesOf(n) \cup {Unk}
=============================================================================
