---------------------------- MODULE Generic ----------------------------
(***************************************************************************)
(* Generic functions and interface dispatch (generics.md, interfaces.md,   *)
(* modules/prelude.abra).                                                  *)
(*                                                                         *)
(* Definition of correctness: a call of a generic function, an interface   *)
(* method, an operator (== != < <= > >= + - * ..), a for loop or an index  *)
(* expression at a concrete type t behaves like the first-order code one   *)
(* would write by hand for t.  That hand-specialised meaning is given here *)
(* as type-directed operators: Str / Eq / Cmp / NumOp / Clone / Name take  *)
(* the concrete type and select                                            *)
(*   - for a user type (Pt, Col, Bag<T>): the implementation declared for  *)
(*     it in GenericLib!LibLines, which prints its own name and then       *)
(*     computes the documented result,                                     *)
(*   - for tuples, arrays, option: the prelude's implementation, which     *)
(*     dispatches to the implementations of the component types in a fixed *)
(*     order (transcribed from modules/prelude.abra),                      *)
(*   - for int, float, string, bool: the primitive operation.              *)
(* The result of evaluating an expression is R(o, v): the lines printed by *)
(* the implementations that were entered (in order) and the value.         *)
(* A check is one statement of a generated program together with the lines *)
(* it must print.                                                          *)
(* Fragment: floats are multiples of 0.5 (a float value is its number of   *)
(* halves), strings are "a" "b" "c", `>=` on bool is excluded (the prelude *)
(* implementation is the subject of another property), option has no       *)
(* Equal/Ord/Clone implementation, arrays no Ord.                          *)
(***************************************************************************)
EXTENDS Integers, Sequences, FiniteSets, TLC, GenericLib

\* ---------------------------------------------------------------- types
TI == [k |-> "int"]     TF == [k |-> "float"]   TS == [k |-> "string"]   TB == [k |-> "bool"]
TPt == [k |-> "Pt"]     TCol == [k |-> "Col"]
TTup(ts) == [k |-> "tup", ts |-> ts]
TArr(t) == [k |-> "arr", of |-> t]
TOpt(t) == [k |-> "opt", of |-> t]
TBag(t) == [k |-> "Bag", of |-> t]
Base == <<TI, TF, TS, TB, TPt, TCol>>
IsBase(t) == t.k \in {"int", "float", "string", "bool", "Pt", "Col"}

RECURSIVE JoinW(_, _)
JoinW(ss, sep) == IF ss = <<>> THEN "" ELSE IF Len(ss) = 1 THEN ss[1] ELSE ss[1] \o sep \o JoinW(Tail(ss), sep)

RECURSIVE TyName(_)
TyName(t) == CASE IsBase(t) -> t.k
               [] t.k = "tup" -> "(" \o JoinW([i \in 1..Len(t.ts) |-> TyName(t.ts[i])], ", ") \o ")"
               [] t.k = "arr" -> "array<" \o TyName(t.of) \o ">"
               [] t.k = "opt" -> "option<" \o TyName(t.of) \o ">"
               [] t.k = "Bag" -> "Bag<" \o TyName(t.of) \o ">"

RECURSIVE All(_, _), Implements(_, _)
\* which interface implementations exist (prelude + GenericLib)
Implements(iface, t) ==
  CASE iface = "ToString" -> (IF IsBase(t) THEN TRUE ELSE IF t.k = "tup" THEN All(iface, t.ts) ELSE Implements(iface, t.of))
    [] iface = "Equal" -> (CASE IsBase(t) -> TRUE [] t.k = "tup" -> All(iface, t.ts) [] t.k = "arr" -> Implements(iface, t.of)
                             [] OTHER -> FALSE)
    [] iface = "Ord" -> (CASE IsBase(t) -> TRUE [] t.k = "tup" -> All(iface, t.ts) [] OTHER -> FALSE)
    [] iface = "Num" -> t.k \in {"int", "float", "Pt"}
    [] iface = "Clone" -> (CASE IsBase(t) -> TRUE [] t.k = "arr" -> Implements(iface, t.of) [] OTHER -> FALSE)
    [] iface = "Shape" -> (CASE IsBase(t) -> TRUE [] t.k = "tup" -> Len(t.ts) \in {2, 3} /\ All(iface, t.ts)
                             [] OTHER -> Implements(iface, t.of))
All(iface, ts) == \A i \in 1..Len(ts) : Implements(iface, ts[i])

\* ---------------------------------------------------------------- values and literals
\* int: integer; float: number of halves; string; bool; Pt: [x, y]; Col: [c, n]; tup, arr: sequences;
\* opt: [some, v]; Bag: [items]
Pt(x, y) == [x |-> x, y |-> y]
Col(c, n) == [c |-> c, n |-> n]
Rank(c) == CASE c.c = "Red" -> 0 [] c.c = "Green" -> 1 [] c.c = "Blue" -> 2 + c.n
Some(v) == [some |-> TRUE, v |-> v]
None == [some |-> FALSE, v |-> 0]
StrRank(s) == CASE s = "a" -> 1 [] s = "b" -> 2 [] s = "c" -> 3

RECURSIVE Vals(_), InnerVals(_)
\* three sample values per type; values 1 and 2 differ late, values 1 and 3 differ early
Vals(t) ==
  CASE t.k = "int" -> <<1, 2, 3>>
    [] t.k = "float" -> <<3, 4, 5>>                    \* 1.5 2.0 2.5
    [] t.k = "string" -> <<"a", "b", "c">>
    [] t.k = "bool" -> <<FALSE, TRUE, TRUE>>
    [] t.k = "Pt" -> <<Pt(1, 2), Pt(1, 3), Pt(2, 0)>>   \* Ord for Pt looks at x only, Equal at both
    [] t.k = "Col" -> <<Col("Red", 0), Col("Green", 0), Col("Blue", 1)>>
    [] t.k = "tup" -> LET n == Len(t.ts) IN
                      << [i \in 1..n |-> Vals(t.ts[i])[1]],
                         [i \in 1..n |-> Vals(t.ts[i])[IF i = n THEN 2 ELSE 1]],
                         [i \in 1..n |-> Vals(t.ts[i])[IF i = 1 THEN 2 ELSE 1]] >>
    [] t.k = "arr" -> LET w == InnerVals(t.of) IN << <<w[1]>>, <<w[1], w[2]>>, <<w[2], w[1]>> >>
    [] t.k = "opt" -> LET w == Vals(t.of) IN <<Some(w[1]), Some(w[2]), Some(w[3])>>
    [] t.k = "Bag" -> LET w == InnerVals(t.of) IN << [items |-> <<w[1]>>], [items |-> <<w[1], w[2]>>], [items |-> <<w[2], w[1]>>] >>
InnerVals(t) == IF t.k = "opt" THEN LET w == Vals(t.of) IN <<Some(w[1]), None, Some(w[2])>> ELSE Vals(t)

RECURSIVE Lit(_, _)
Lit(t, v) ==
  CASE t.k = "int" -> ToString(v)
    [] t.k = "float" -> ToString(v \div 2) \o (IF v % 2 = 0 THEN ".0" ELSE ".5")
    [] t.k = "string" -> "\"" \o v \o "\""
    [] t.k = "bool" -> (IF v THEN "true" ELSE "false")
    [] t.k = "Pt" -> "Pt(" \o ToString(v.x) \o ", " \o ToString(v.y) \o ")"
    [] t.k = "Col" -> (IF v.c = "Blue" THEN "Col.Blue(" \o ToString(v.n) \o ")" ELSE "Col." \o v.c)
    [] t.k = "tup" -> "(" \o JoinW([i \in 1..Len(v) |-> Lit(t.ts[i], v[i])], ", ") \o ")"
    [] t.k = "arr" -> "[" \o JoinW([i \in 1..Len(v) |-> Lit(t.of, v[i])], ", ") \o "]"
    [] t.k = "opt" -> (IF v.some THEN "option.some(" \o Lit(t.of, v.v) \o ")" ELSE "option.none")
    [] t.k = "Bag" -> "Bag(" \o Lit(TArr(t.of), v.items) \o ")"

\* ---------------------------------------------------------------- the hand-specialised meaning
R(o, v) == [o |-> o, v |-> v]
FltStr(h) == LET a == IF h < 0 THEN 0 - h ELSE h
             IN (IF h < 0 THEN "-" ELSE "") \o ToString(a \div 2) \o (IF a % 2 = 0 THEN "" ELSE ".5")

RECURSIVE Str(_, _), StrSeq(_, _, _), Eq(_, _, _), EqTup(_, _, _, _), EqArr(_, _, _, _),
          Cmp(_, _, _, _), CmpTup(_, _, _, _, _), Clone(_, _), CloneArr(_, _, _), Name(_, _), NameSeq(_, _, _)

\* ToString.str at type t
Str(t, v) ==
  CASE t.k = "int" -> R(<<>>, ToString(v))
    [] t.k = "float" -> R(<<>>, FltStr(v))
    [] t.k = "string" -> R(<<>>, v)
    [] t.k = "bool" -> R(<<>>, IF v THEN "true" ELSE "false")
    [] t.k = "Pt" -> R(<<"ToString.Pt">>, "Pt<" \o ToString(v.x) \o "," \o ToString(v.y) \o ">")
    [] t.k = "Col" -> R(<<"ToString.Col">>, IF v.c = "Blue" THEN "Blue:" \o ToString(v.n) ELSE v.c)
    [] t.k = "tup" -> LET p == StrSeq(t.ts, v, 1) IN R(p.o, "(" \o JoinW(p.v, ", ") \o ")")
    [] t.k = "arr" -> LET p == StrSeq([i \in 1..Len(v) |-> t.of], v, 1) IN R(p.o, "[ " \o JoinW(p.v, ", ") \o " ]")
    [] t.k = "opt" -> (IF v.some THEN LET r == Str(t.of, v.v) IN R(r.o, "some(" \o r.v \o ")") ELSE R(<<>>, "none"))
    [] t.k = "Bag" -> LET r == Str(TArr(t.of), v.items) IN R(<<"ToString.Bag">> \o r.o, "Bag" \o r.v)
StrSeq(ts, vs, i) ==
  IF i > Len(vs) THEN R(<<>>, <<>>)
  ELSE LET a == Str(ts[i], vs[i])
           rest == StrSeq(ts, vs, i + 1)
       IN R(a.o \o rest.o, <<a.v>> \o rest.v)

\* Equal.equal at type t  (== ; != is its negation)
Eq(t, a, b) ==
  CASE t.k \in {"int", "float", "string", "bool"} -> R(<<>>, a = b)
    [] t.k = "Pt" -> R(<<"Equal.Pt">>, a.x = b.x /\ a.y = b.y)
    [] t.k = "Col" -> R(<<"Equal.Col">>, Rank(a) = Rank(b))
    [] t.k = "tup" -> EqTup(t.ts, a, b, 1)                 \* (a1 == b1) and (a2 == b2) ..., `and` short-circuits
    [] t.k = "arr" -> (IF Len(a) # Len(b) THEN R(<<>>, FALSE) ELSE EqArr(t.of, a, b, 1))
EqTup(ts, a, b, i) ==
  LET r == Eq(ts[i], a[i], b[i])
  IN IF i = Len(ts) \/ ~r.v THEN r
     ELSE LET rest == EqTup(ts, a, b, i + 1) IN R(r.o \o rest.o, rest.v)
EqArr(t, a, b, i) ==
  IF i > Len(a) THEN R(<<>>, TRUE)
  ELSE LET r == Eq(t, a[i], b[i])
       IN IF ~r.v THEN R(r.o, FALSE)
          ELSE LET rest == EqArr(t, a, b, i + 1) IN R(r.o \o rest.o, rest.v)

\* Ord at type t; op in lt le gt ge
PrimCmp(op, x, y) == CASE op = "lt" -> x < y [] op = "le" -> x <= y [] op = "gt" -> x > y [] op = "ge" -> x >= y
Cmp(op, t, a, b) ==
  CASE t.k \in {"int", "float"} -> R(<<>>, PrimCmp(op, a, b))
    [] t.k = "string" -> R(<<>>, PrimCmp(op, StrRank(a), StrRank(b)))
    [] t.k = "bool" -> R(<<>>, CASE op = "lt" -> ~a /\ b [] op = "le" -> ~(a /\ ~b) [] op = "gt" -> a /\ ~b)
    [] t.k = "Pt" -> R(<<"Ord.Pt." \o op>>, PrimCmp(op, a.x, b.x))
    [] t.k = "Col" -> R(<<"Ord.Col." \o op>>, PrimCmp(op, Rank(a), Rank(b)))
    [] t.k = "tup" -> CmpTup(op, t.ts, a, b, 1)
\* prelude: for every component but the last: `if first(ai, bi) return true; if second(ai, bi) return false`
CmpTup(op, ts, a, b, i) ==
  IF i = Len(ts) THEN Cmp(op, ts[i], a[i], b[i])
  ELSE LET first == IF op \in {"lt", "le"} THEN "lt" ELSE "gt"
           second == IF op \in {"lt", "le"} THEN "gt" ELSE "lt"
           r1 == Cmp(first, ts[i], a[i], b[i])
       IN IF r1.v THEN R(r1.o, TRUE)
          ELSE LET r2 == Cmp(second, ts[i], a[i], b[i])
               IN IF r2.v THEN R(r1.o \o r2.o, FALSE)
                  ELSE LET rest == CmpTup(op, ts, a, b, i + 1) IN R(r1.o \o r2.o \o rest.o, rest.v)
RECURSIVE CmpInModel(_, _)
CmpInModel(op, t) ==
  CASE t.k = "bool" -> op # "ge"
    [] t.k = "tup" -> /\ \A i \in 1..(Len(t.ts) - 1) : CmpInModel("lt", t.ts[i])
                      /\ CmpInModel(op, t.ts[Len(t.ts)])
    [] OTHER -> TRUE

\* Num at type t; op in add subtract multiply
NumOp(op, t, a, b) ==
  CASE t.k = "int" -> R(<<>>, CASE op = "add" -> a + b [] op = "subtract" -> a - b [] op = "multiply" -> a * b)
    [] t.k = "float" -> R(<<>>, CASE op = "add" -> a + b [] op = "subtract" -> a - b [] op = "multiply" -> (a * b) \div 2)
    [] t.k = "Pt" -> R(<<"Num.Pt." \o op>>,
                       CASE op = "add" -> Pt(a.x + b.x, a.y + b.y) [] op = "subtract" -> Pt(a.x - b.x, a.y - b.y)
                         [] op = "multiply" -> Pt(a.x * b.x, a.y * b.y))
NumInModel(op, t, a, b) == t.k = "float" /\ op = "multiply" => (a * b) % 2 = 0

\* Clone.clone at type t
Clone(t, v) ==
  CASE t.k \in {"int", "float", "string", "bool"} -> R(<<>>, v)
    [] t.k = "Pt" -> R(<<"Clone.Pt">>, v)
    [] t.k = "Col" -> R(<<"Clone.Col">>, v)
    [] t.k = "arr" -> CloneArr(t.of, v, 1)
CloneArr(t, v, i) ==
  IF i > Len(v) THEN R(<<>>, <<>>)
  ELSE LET a == Clone(t, v[i])
           rest == CloneArr(t, v, i + 1)
       IN R(a.o \o rest.o, <<a.v>> \o rest.v)

\* Shape.name at type t (user interface; every implementation prints "Shape.<impl>")
Name(t, v) ==
  CASE IsBase(t) -> R(<<"Shape." \o t.k>>, t.k)
    [] t.k = "arr" -> LET r == Name(t.of, v[1]) IN R(<<"Shape.array">> \o r.o, "array<" \o r.v \o ">")
    [] t.k = "tup" -> LET p == NameSeq(t.ts, v, 1)
                      IN R(<<"Shape.tuple" \o ToString(Len(t.ts))>> \o p.o, "(" \o JoinW(p.v, ", ") \o ")")
    [] t.k = "opt" -> (IF v.some THEN LET r == Name(t.of, v.v) IN R(<<"Shape.option">> \o r.o, "some " \o r.v)
                       ELSE R(<<"Shape.option">>, "none"))
    [] t.k = "Bag" -> LET r == Name(t.of, v.items[1]) IN R(<<"Shape.Bag">> \o r.o, "Bag<" \o r.v \o ">")
NameSeq(ts, vs, i) ==
  IF i > Len(vs) THEN R(<<>>, <<>>)
  ELSE LET a == Name(ts[i], vs[i])
           rest == NameSeq(ts, vs, i + 1)
       IN R(a.o \o rest.o, <<a.v>> \o rest.v)

\* println(e) where e : t evaluates to r
PrintR(t, r) == LET s == Str(t, r.v) IN r.o \o s.o \o <<s.v>>
PrintBool(r) == r.o \o <<IF r.v THEN "true" ELSE "false">>

\* ---------------------------------------------------------------- checks
\* [tmpl, iface, ty, src (lines), out (lines)] (+ key for a known defect family)
Chk(tmpl, iface, t, src, out) == [tmpl |-> tmpl, iface |-> iface, ty |-> TyName(t), src |-> src, out |-> out]
NumKey == "C22|Num|operator-on-user-type"

\* k: a number unique in the program (names of helper variables)
UnaryChecks(t, v, w, k) ==
  LET L == Lit(t, v)   M == Lit(t, w)   s == Str(t, v)   n == ToString(k)
      pv == PrintR(t, R(<<>>, v))   pw == PrintR(t, R(<<>>, w))
  IN << Chk("id", "none", t, <<"println(id(" \o L \o "))">>, pv),
        Chk("firstof", "none", t, <<"println(firstof([" \o L \o ", " \o M \o "]))">>, pv),
        Chk("show", "ToString", t, <<"println(show(" \o L \o "))">>, s.o \o <<"<" \o s.v \o ">">>),
        Chk("concat", "ToString", t, <<"println(\"x\" .. " \o L \o ")">>, s.o \o <<"x" \o s.v>>),
        Chk("app-show", "ToString", t, <<"println(app(show, " \o L \o "))">>, s.o \o <<"<" \o s.v \o ">">>),
        \* a closure whose own type mentions no type parameter at all, created inside a generic function
        Chk("later0", "ToString", t, <<"println(later0(" \o L \o ")())">>, s.o \o <<"<" \o s.v \o ">">>),
        Chk("app-id", "none", t, <<"println(app(id, " \o L \o "))">>, pv),
        Chk("showall", "ToString", t, <<"println(showall([" \o L \o ", " \o M \o "]))">>,
            LET s2 == Str(t, w) IN s.o \o s2.o \o <<"<" \o s.v \o "><" \o s2.v \o ">">>),
        Chk("for-bag", "Iterable", t, <<"for e" \o n \o " in Bag([" \o L \o ", " \o M \o "]) {", "println(e" \o n \o ")", "}">>,
            <<"Iterable.Bag", "Iterator.BagIter">> \o pv \o <<"Iterator.BagIter">> \o pw \o <<"Iterator.BagIter">>),
        Chk("each-bag", "Iterable", t, <<"each(Bag([" \o L \o ", " \o M \o "]))">>,
            <<"Iterable.Bag", "Iterator.BagIter">> \o pv \o <<"Iterator.BagIter">> \o pw \o <<"Iterator.BagIter">>),
        Chk("index-bag", "Index", t,
            <<"let g" \o n \o " = Bag([" \o L \o ", " \o M \o "])", "println(g" \o n \o "[1])",
              "g" \o n \o "[0] = " \o M, "println(g" \o n \o "[0])">>,
            <<"Index.Bag.get">> \o pw \o <<"Index.Bag.set", "Index.Bag.get">> \o pw) >>
     \o (IF Implements("Clone", t)
         THEN <<Chk("dup", "Clone", t, <<"println(dup(" \o L \o "))">>, PrintR(t, Clone(t, v)))>> ELSE <<>>)
     \o (IF Implements("Shape", t)
         THEN LET nm == Name(t, v) IN
              << Chk("describe", "Shape", t, <<"println(describe(" \o L \o "))">>, nm.o \o <<nm.v>>),
                 Chk("Shape.name", "Shape", t, <<"println(Shape.name(" \o L \o "))">>, nm.o \o <<nm.v>>),
                 Chk("method", "Shape", t, <<"let q" \o n \o " = " \o L, "println(q" \o n \o ".name())">>, nm.o \o <<nm.v>>),
                 Chk("app-describe", "Shape", t, <<"println(app(describe, " \o L \o "))">>, nm.o \o <<nm.v>>) >>
         ELSE <<>>)

OrdOps == <<"lt", "le", "gt", "ge">>
OrdSym(op) == CASE op = "lt" -> "<" [] op = "le" -> "<=" [] op = "gt" -> ">" [] op = "ge" -> ">="
NumOps == <<"add", "subtract", "multiply">>
NumFn(op) == CASE op = "add" -> "plus" [] op = "subtract" -> "minus" [] op = "multiply" -> "times"
NumSym(op) == CASE op = "add" -> "+" [] op = "subtract" -> "-" [] op = "multiply" -> "*"
RECURSIVE FlatFrom(_, _)
FlatFrom(ss, i) == IF i > Len(ss) THEN <<>> ELSE ss[i] \o FlatFrom(ss, i + 1)
Flat(ss) == FlatFrom(ss, 1)

BinaryChecks(t, a, b) ==
  LET L == Lit(t, a)   M == Lit(t, b)
      eq == IF Implements("Equal", t)
            THEN LET e == Eq(t, a, b)
                     ne == R(e.o, ~e.v)
                     cnt == LET e1 == Eq(t, a, a)  e2 == Eq(t, b, a)
                            IN R(e1.o \o e2.o \o e1.o, (IF e1.v THEN 2 ELSE 0) + (IF e2.v THEN 1 ELSE 0))
                 IN << Chk("same", "Equal", t, <<"println(same(" \o L \o ", " \o M \o "))">>, PrintBool(e)),
                       Chk("differ", "Equal", t, <<"println(differ(" \o L \o ", " \o M \o "))">>, PrintBool(ne)),
                       Chk("op==", "Equal", t, <<"println(" \o L \o " == " \o M \o ")">>, PrintBool(e)),
                       Chk("op!=", "Equal", t, <<"println(" \o L \o " != " \o M \o ")">>, PrintBool(ne)),
                       Chk("same3", "Equal", t, <<"println(same3(" \o L \o ", " \o M \o ", " \o L \o "))">>,
                           LET e2 == Eq(t, b, a) IN IF e.v THEN PrintBool(R(e.o \o e2.o, e2.v)) ELSE PrintBool(e)),
                       Chk("count", "Equal", t, <<"println(count([" \o L \o ", " \o M \o ", " \o L \o "], " \o L \o "))">>,
                           cnt.o \o <<ToString(cnt.v)>>) >>
            ELSE <<>>
      ord == IF Implements("Ord", t)
             THEN Flat([i \in 1..4 |->
                    LET op == OrdOps[i] IN
                    IF CmpInModel(op, t)
                    THEN LET c == Cmp(op, t, a, b)
                         IN << Chk(op, "Ord", t, <<"println(" \o op \o "(" \o L \o ", " \o M \o "))">>, PrintBool(c)),
                               Chk("op" \o OrdSym(op), "Ord", t, <<"println(" \o L \o " " \o OrdSym(op) \o " " \o M \o ")">>, PrintBool(c)) >>
                    ELSE <<>>])
                  \o (LET c == Cmp("gt", t, a, b)
                      IN <<Chk("mx", "Ord", t, <<"println(mx(" \o L \o ", " \o M \o "))">>, PrintR(t, R(c.o, IF c.v THEN a ELSE b)))>>)
             ELSE <<>>
      num == IF Implements("Num", t)
             THEN Flat([i \in 1..3 |->
                    LET op == NumOps[i] IN
                    IF NumInModel(op, t, a, b)
                    THEN LET r == NumOp(op, t, a, b)
                             kk == IF t.k = "Pt" THEN [key |-> NumKey] ELSE <<>>
                         IN << Chk(NumFn(op), "Num", t, <<"println(" \o NumFn(op) \o "(" \o L \o ", " \o M \o "))">>, PrintR(t, r)) @@ kk,
                               Chk("op" \o NumSym(op), "Num", t, <<"println(" \o L \o " " \o NumSym(op) \o " " \o M \o ")">>, PrintR(t, r)) @@ kk >>
                    ELSE <<>>])
             ELSE <<>>
  IN eq \o ord \o num

\* two type parameters: show2 at (t, u) and (u, t)
PairChecks(t, u) ==
  LET a == Vals(t)[1]   b == Vals(u)[1]   sa == Str(t, a)   sb == Str(u, b)
      ck(x, y, sx, sy, tx, ty) == [tmpl |-> "show2", iface |-> "ToString", ty |-> TyName(tx) \o " x " \o TyName(ty),
                                   src |-> <<"println(show2(" \o Lit(tx, x) \o ", " \o Lit(ty, y) \o "))">>,
                                   out |-> sx.o \o sy.o \o <<"<" \o sx.v \o "><" \o sy.v \o ">">>]
      \* a closure whose own type mentions only the first type parameter while its body dispatches on the second
      \* (the instances for one T and several U must not share code)
      lat(x, y, sy, tx, ty) == [tmpl |-> "later", iface |-> "ToString", ty |-> TyName(tx) \o " x " \o TyName(ty),
                                src |-> <<"println(later(" \o Lit(tx, x) \o ", " \o Lit(ty, y) \o ")(" \o Lit(tx, x) \o "))">>,
                                out |-> sy.o \o <<"<" \o sy.v \o ">">>]
      \* the same with an interface operator on the second parameter inside the closure: key(a) <= key(b) with a constant key
      kl(x, y, tx, ty) == LET c == Cmp("le", ty, y, y) IN
                          [tmpl |-> "keyle", iface |-> "Ord", ty |-> TyName(tx) \o " x " \o TyName(ty),
                           src |-> <<"println(keyle(" \o Lit(tx, x) \o ", " \o Lit(tx, x) \o ", (k: " \o TyName(tx) \o ") -> " \o Lit(ty, y) \o "))">>,
                           out |-> PrintBool(c)]
      kls == (IF Implements("Ord", u) /\ CmpInModel("le", u) THEN <<kl(a, b, t, u)>> ELSE <<>>)
             \o (IF Implements("Ord", t) /\ CmpInModel("le", t) THEN <<kl(b, a, u, t)>> ELSE <<>>)
  IN <<ck(a, b, sa, sb, t, u), ck(b, a, sb, sa, u, t), lat(a, b, sb, t, u), lat(b, a, sa, u, t)>> \o kls

\* every check at type t: values (1,2) unary; pairs (1,1) (1,2) (2,1) (1,3) binary; partner types for show2
ChecksOf(t, partners) ==
  LET V == Vals(t)
  IN UnaryChecks(t, V[1], V[2], 1) \o UnaryChecks(t, V[3], V[1], 2)
     \o BinaryChecks(t, V[1], V[1]) \o BinaryChecks(t, V[1], V[2]) \o BinaryChecks(t, V[2], V[1]) \o BinaryChecks(t, V[1], V[3])
     \o Flat([i \in 1..Len(partners) |-> PairChecks(t, partners[i])])

\* non-generic user iterables / index types with other item and index types
MiscChecks ==
  << [tmpl |-> "for-Down", iface |-> "Iterable", ty |-> "Down", src |-> <<"for d1 in Down(2) {", "println(d1)", "}">>,
      out |-> <<"Iterable.Down", "Iterator.DownIter", "2", "Iterator.DownIter", "1", "Iterator.DownIter">>],
     [tmpl |-> "for-Down", iface |-> "Iterable", ty |-> "Down", src |-> <<"for d2 in Down(0) {", "println(d2)", "}">>,
      out |-> <<"Iterable.Down", "Iterator.DownIter">>],
     [tmpl |-> "index-Reg", iface |-> "Index", ty |-> "Reg",
      src |-> <<"let reg = Reg([\"p\", \"q\"], [1.5, 2.5])", "println(reg[\"q\"])", "reg[\"p\"] = 4.0", "println(reg[\"p\"])">>,
      out |-> <<"Index.Reg.get", "2.5", "Index.Reg.set", "Index.Reg.get", "4">>],
     [tmpl |-> "for-array", iface |-> "Iterable", ty |-> "array<Pt>", src |-> <<"for d3 in [Pt(1, 2), Pt(2, 0)] {", "println(d3)", "}">>,
      out |-> <<"ToString.Pt", "Pt<1,2>", "ToString.Pt", "Pt<2,0>">>],
     [tmpl |-> "for-int", iface |-> "Iterable", ty |-> "int", src |-> <<"for d4 in 2 {", "println(d4)", "}">>, out |-> <<"0", "1">>],
     \* a generic struct whose type parameter is instantiated with void: the other fields are where they are for every instance
     [tmpl |-> "field-after-void", iface |-> "none", ty |-> "Pr<void>",
      src |-> <<"let pv = Pr(nil, 1)", "println(pv.snd)", "pv.snd = 5", "println(pv.snd)">>, out |-> <<"1", "5">>],
     [tmpl |-> "field-after-void", iface |-> "none", ty |-> "Pr<string>",
      src |-> <<"let ps = Pr(\"s\", 2)", "println(ps.snd)", "ps.snd = 6", "println(ps.snd)", "println(ps.fst)">>, out |-> <<"2", "6", "s">>] >>

\* two modules that each declare a type named Tw (different layouts, own implementations), used side by side through
\* namespace prefixes: the instances of one generic function / interface method for the two types are different instances
TwinA == << "type Tw = { a: int }",
            "implement ToString for Tw {", "  fn str(self) {", "    println(\"ToString.twina.Tw\")", "    \"A\" .. self.a", "  }", "}",
            "implement Equal for Tw {", "  fn equal(x, y) {", "    println(\"Equal.twina.Tw\")", "    x.a == y.a", "  }", "}" >>
TwinB == << "type Tw = { s: string, k: int, z: string }",
            "implement ToString for Tw {", "  fn str(self) {", "    println(\"ToString.twinb.Tw\")", "    \"B\" .. self.s .. self.k .. self.z", "  }", "}",
            "implement Equal for Tw {", "  fn equal(x, y) {", "    println(\"Equal.twinb.Tw\")", "    x.k == y.k", "  }", "}" >>
TwinChecks ==
  LET a1 == "twina.Tw(1)"  a2 == "twina.Tw(2)"  b1 == "twinb.Tw(\"q\", 1, \"w\")"  b2 == "twinb.Tw(\"r\", 1, \"v\")"
      ck(tmpl, iface, ty, src, out) == [tmpl |-> tmpl, iface |-> iface, ty |-> ty, src |-> src, out |-> out]
  IN << ck("println", "ToString", "twina.Tw", <<"println(" \o a1 \o ")">>, <<"ToString.twina.Tw", "A1">>),
        ck("println", "ToString", "twinb.Tw", <<"println(" \o b1 \o ")">>, <<"ToString.twinb.Tw", "Bq1w">>),
        ck("show", "ToString", "twina.Tw", <<"println(show(" \o a2 \o "))">>, <<"ToString.twina.Tw", "<A2>">>),
        ck("show", "ToString", "twinb.Tw", <<"println(show(" \o b2 \o "))">>, <<"ToString.twinb.Tw", "<Br1v>">>),
        ck("same", "Equal", "twina.Tw", <<"println(same(" \o a1 \o ", " \o a2 \o "))">>, <<"Equal.twina.Tw", "false">>),
        ck("same", "Equal", "twinb.Tw", <<"println(same(" \o b1 \o ", " \o b2 \o "))">>, <<"Equal.twinb.Tw", "true">>),
        ck("op==", "Equal", "twina.Tw", <<"println(" \o a1 \o " == " \o a1 \o ")">>, <<"Equal.twina.Tw", "true">>),
        ck("op==", "Equal", "twinb.Tw", <<"println(" \o b1 \o " != " \o b2 \o ")">>, <<"Equal.twinb.Tw", "false">>),
        ck("id", "none", "twina.Tw", <<"println(id(" \o a2 \o "))">>, <<"ToString.twina.Tw", "A2">>),
        ck("id", "none", "twinb.Tw", <<"println(id(" \o b1 \o "))">>, <<"ToString.twinb.Tw", "Bq1w">>),
        ck("show2", "ToString", "twina.Tw x twinb.Tw", <<"println(show2(" \o a1 \o ", " \o b2 \o "))">>,
           <<"ToString.twina.Tw", "ToString.twinb.Tw", "<A1><Br1v>">>),
        ck("showall", "ToString", "twinb.Tw", <<"let lb: array<twinb.Tw> = [" \o b1 \o ", " \o b2 \o "]", "println(showall(lb))">>,
           <<"ToString.twinb.Tw", "ToString.twinb.Tw", "<Bq1w><Br1v>">>),
        ck("showall", "ToString", "twina.Tw", <<"let la: array<twina.Tw> = [" \o a1 \o ", " \o a2 \o "]", "println(showall(la))">>,
           <<"ToString.twina.Tw", "ToString.twina.Tw", "<A1><A2>">>) >>
\* the same with the array literal as the argument (no annotation): one program per check, keyed as a defect family
TwinKeyed ==
  LET a1 == "twina.Tw(1)"  a2 == "twina.Tw(2)"  b1 == "twinb.Tw(\"q\", 1, \"w\")"  b2 == "twinb.Tw(\"r\", 1, \"v\")"
      ck(tmpl, iface, ty, src, out) == [tmpl |-> tmpl, iface |-> iface, ty |-> ty, src |-> src, out |-> out,
                                        key |-> "C22|array-literal-of-qualified-constructor-calls|type-not-inferred"]
  IN << ck("showall", "ToString", "twinb.Tw", <<"println(showall([" \o b1 \o ", " \o b2 \o "]))">>,
           <<"ToString.twinb.Tw", "ToString.twinb.Tw", "<Bq1w><Br1v>">>),
        ck("showall", "ToString", "twina.Tw", <<"println(showall([" \o a1 \o ", " \o a2 \o "]))">>,
           <<"ToString.twina.Tw", "ToString.twina.Tw", "<A1><A2>">>),
        ck("println", "ToString", "array<twina.Tw>", <<"println([" \o a1 \o ", " \o a2 \o "])">>,
           <<"ToString.twina.Tw", "ToString.twina.Tw", "[ A1, A2 ]">>) >>

\* ---------------------------------------------------------------- programs
\* checks are separated by marker lines "#i" so that the observation can be compared check by check
RECURSIVE BodyOf(_, _)
BodyOf(cs, i) == IF i > Len(cs) THEN <<>> ELSE <<"println(\"#" \o ToString(i) \o "\")">> \o cs[i].src \o BodyOf(cs, i + 1)

\* layout: "single" = everything in main; "lib" = types and implementations in lib.abra; "libgen" = generic functions too
FilesOf(layout, cs) ==
  LET body == BodyOf(cs, 1)
  IN CASE layout = "twin" -> ("main.abra" :> <<"use twina as twina", "use twinb as twinb">> \o LibLines \o GenLines \o body)
                             @@ ("twina.abra" :> TwinA) @@ ("twinb.abra" :> TwinB)
       [] layout = "single" -> ("main.abra" :> LibLines \o GenLines \o body)
       [] layout = "lib" -> ("main.abra" :> <<"use lib">> \o GenLines \o body) @@ ("lib.abra" :> LibLines)
       [] layout = "libgen" -> ("main.abra" :> <<"use lib", "use gen">> \o body) @@ ("lib.abra" :> LibLines)
                               @@ ("gen.abra" :> <<"use lib">> \o GenLines)
=============================================================================
