---------------------------- MODULE AbraResolve ----------------------------
(***************************************************************************)
(* Name resolution and imports (book/src/language_reference/namespaces.md, *)
(* variables.md, functions.md, control_flow.md).                           *)
(*                                                                         *)
(* A program is a sequence of files (files[1] = main).  Every file has     *)
(* imports, function declarations (each prints its own identity            *)
(* "file.name"), probe functions (a function with one parameter whose body *)
(* is a list of uses) and - for main - a body of statements:               *)
(*    use n        a call  n(0)                                            *)
(*    quse p n     a call  p.n(0)  through a namespace prefix              *)
(*    let n        let n: int -> void = <lambda printing "L<line>.n">      *)
(*    scope kind b body    a nested scope (block, if, while, for, match),  *)
(*                 optionally binding b (let at the start of the body for  *)
(*                 block/if/while, the pattern variable for for/match)     *)
(*                                                                         *)
(* Definition of correctness                                               *)
(*  - the file scope of F holds F's own declarations plus, per `use`:      *)
(*    all declarations of the target (`use t`), those in the list          *)
(*    (`use t.a`, `use t.(a, b)`), all but the list (`use t except a`),    *)
(*    or only a namespace alias (`use t as p`).  Nothing is re-exported.   *)
(*  - an identifier denotes the binding of the innermost enclosing scope   *)
(*    that binds it textually before the use (a `let` is visible from the  *)
(*    statement after it to the end of its block; parameters and pattern   *)
(*    variables in the whole body they guard); otherwise the unique        *)
(*    declaration of that name in the file scope; functions cannot see the *)
(*    top-level statements' bindings.                                      *)
(*  - no such declaration: "Could not resolve identifier" at the use.      *)
(*  - two declarations of one name in a file scope: "`n` was declared more *)
(*    than once" (which one later uses denote is left open).               *)
(*  - p.n: p must denote a namespace alias; n is looked up among the       *)
(*    declarations of the aliased file only.                               *)
(* One traversal renders the text and computes the verdict of every use,   *)
(* so positions of expected diagnostics agree with the text by             *)
(* construction.  Files are emitted as sequences of lines (the driver      *)
(* joins them with "\n"): TLC interns every string it builds.              *)
(***************************************************************************)
EXTENDS Naturals, Sequences, FiniteSets, TLC

SeqToSet(s) == {s[i] : i \in DOMAIN s}
MaxOf(S) == CHOOSE x \in S : \A y \in S : y <= x

RECURSIVE JoinC(_)
JoinC(ss) == IF ss = <<>> THEN "" ELSE IF Len(ss) = 1 THEN ss[1] ELSE ss[1] \o ", " \o JoinC(Tail(ss))

MsgUnresolved == "Could not resolve identifier"
ClashSuffix == " was declared more than once"
ClashMsg(n) == "`" \o n \o "`" \o ClashSuffix

\* ---------------------------------------------------------------- abstract syntax
Imp(target, form, names, alias) == [target |-> target, form |-> form, names |-> names, alias |-> alias]
Use(n) == [k |-> "use", n |-> n]
QUse(p, n) == [k |-> "quse", p |-> p, n |-> n]
LetS(n) == [k |-> "let", n |-> n]
Scope(kind, b, body) == [k |-> "scope", kind |-> kind, b |-> b, body |-> body]
ProbeFn(name, param, body) == [name |-> name, param |-> param, body |-> body]
\* dk: what the names in `decls` declare: functions ("fn") or enums ("enum": `type n = | P<file> | Q<file>`)
FileRec(name, imports, decls, fns, body, declsLast) ==
  [name |-> name, imports |-> imports, decls |-> decls, fns |-> fns, body |-> body, declsLast |-> declsLast, dk |-> "fn"]
FileRecT(name, imports, decls, body, declsLast) ==
  [name |-> name, imports |-> imports, decls |-> decls, fns |-> <<>>, body |-> body, declsLast |-> declsLast, dk |-> "enum"]
\* a use of the enum named n: a match on one of its variants with a qualified variant pattern (`n.Pf` as an expression and
\* as a pattern); it is only written where the name resolves to exactly one enum
TUse(n) == [k |-> "tuse", n |-> n]

ScopeKinds == {"block", "if", "while", "for", "match", "match2"}
PatternKinds == {"for", "match"}           \* the binder is a pattern variable guarding the whole body

\* ---------------------------------------------------------------- declarations and file scopes
Fn(f, n) == [t |-> "fn", file |-> f, name |-> n]
Ns(f, n) == [t |-> "ns", file |-> f, name |-> n]
Other(t) == [t |-> t, file |-> "", name |-> ""]

FileNames(P) == {P.files[i].name : i \in DOMAIN P.files}
HasFile(P, nm) == nm \in FileNames(P)
FileOf(P, nm) == P.files[CHOOSE i \in DOMAIN P.files : P.files[i].name = nm]
DeclNames(F) == SeqToSet(F.decls) \cup {F.fns[i].name : i \in DOMAIN F.fns}
ProbeNames(P) == UNION {{P.files[i].fns[j].name : j \in DOMAIN P.files[i].fns} : i \in DOMAIN P.files}

\* what one import statement makes visible (unqualified) in the importing file
Imported(P, imp) ==
  IF ~HasFile(P, imp.target) THEN {}
  ELSE LET D == DeclNames(FileOf(P, imp.target)) IN
       CASE imp.form = "glob" -> {Fn(imp.target, n) : n \in D}
         [] imp.form = "incl" -> {Fn(imp.target, n) : n \in D \cap SeqToSet(imp.names)}
         [] imp.form = "excl" -> {Fn(imp.target, n) : n \in D \ SeqToSet(imp.names)}
         [] imp.form = "as"   -> {Ns(imp.target, imp.alias)}

\* every declaration visible at file level in F; a declaration is identified by (kind, file, name)
FileScope(P, F) == {Fn(F.name, n) : n \in DeclNames(F)} \cup
                   UNION {Imported(P, F.imports[i]) : i \in DOMAIN F.imports}
VisibleAs(P, F, n) == {d \in FileScope(P, F) : d.name = n}
ClashNames(P, F) == {n \in {d.name : d \in FileScope(P, F)} : Cardinality(VisibleAs(P, F, n)) >= 2}

\* files that belong to the program: reachable from main through `use`
Targets(P, F) == {F.imports[i].target : i \in DOMAIN F.imports} \cap FileNames(P)
RECURSIVE Reach(_, _)
Reach(P, S) == LET S2 == S \cup UNION {Targets(P, FileOf(P, f)) : f \in S}
               IN IF S2 = S THEN S ELSE Reach(P, S2)
Loaded(P) == Reach(P, {P.files[1].name})

\* ---------------------------------------------------------------- scopes
\* env: sequence of scopes, innermost last; scope = [bind : name -> label, taint : set of names]
\* (taint marks the names of `for` pattern variables after their loop: the uses that a loop
\*  variable surviving its loop would capture; used only to key that defect family)
\* infer: names bound to a value whose type is only inferred (a match binding of an un-annotated lambda); a `for` over `[n]`
\* needs the element type to be known when the loop is checked, so such names are not used in a loop header
EmptyScope == [bind |-> <<>>, taint |-> {}, infer |-> {}]
Resolve(C, env, n) ==
  LET idx == {i \in DOMAIN env : n \in DOMAIN env[i].bind}
  IN IF idx # {} THEN [t |-> "local", file |-> "", name |-> env[MaxOf(idx)].bind[n]]
     ELSE LET V == {d \in C.scope : d.name = n}
          IN IF V = {} THEN Other("unres")
             ELSE IF Cardinality(V) = 1 THEN CHOOSE d \in V : TRUE
             ELSE Other("clash")
Inferred(env, n) ==
  LET idx == {i \in DOMAIN env : n \in DOMAIN env[i].bind}
  IN idx # {} /\ n \in env[MaxOf(idx)].infer
Tainted(env, n) ==
  LET J == {i \in DOMAIN env : n \in DOMAIN env[i].bind \/ n \in env[i].taint}
  IN J # {} /\ n \in env[MaxOf(J)].taint

\* ---------------------------------------------------------------- rendering + verdicts in one walk
Put(st, line) == [st EXCEPT !.lines = Append(@, line), !.off = @ + Len(line) + 1]
\* a position: byte range in the file and, equivalently, line / column (1-based) / length; rendered diagnostics
\* name a file by the last component of its path
RECURSIVE BaseFrom(_, _)
BaseFrom(s, i) == IF i = 0 THEN s ELSE IF SubSeq(s, i, i) = "/" THEN SubSeq(s, i + 1, Len(s)) ELSE BaseFrom(s, i - 1)
BaseOf(s) == BaseFrom(s, Len(s))
Pos(C, st, s, e) == [file |-> BaseOf(C.F.name) \o ".abra", start |-> s, end |-> e,
                     line |-> Len(st.lines) + 1, col |-> s - st.off + 1, len |-> e - s]
Lam(label) == "(z: int) -> println(\"" \o label \o "\")"
LineNo(st) == ToString(Len(st.lines) + 1)
Bind(st, n, label) ==
  LET k == Len(st.env)
  IN [st EXCEPT !.env[k].bind = (n :> label) @@ @, !.env[k].taint = @ \ {n}, !.env[k].infer = @ \ {n}]
Push(st, sc) == [st EXCEPT !.env = Append(@, sc)]
Pop(st) == [st EXCEPT !.env = SubSeq(@, 1, Len(@) - 1)]
Tag(st, t) == [st EXCEPT !.tags = Append(@, t)]

OutOf(C, r) ==
  CASE r.t = "local" -> r.name \o "\n"
    [] r.t = "fn" -> (IF r \in DOMAIN C.declout THEN C.declout[r] ELSE r.file \o "." \o r.name \o "\n")
    [] OTHER -> ""

RECURSIVE WalkS(_, _, _), Walk1(_, _, _)
WalkS(C, ss, st) == IF ss = <<>> THEN st ELSE WalkS(C, Tail(ss), Walk1(C, ss[1], st))
Walk1(C, s, st) ==
  CASE s.k = "use" ->
        LET r == Resolve(C, st.env, s.n)
            tainted == Tainted(st.env, s.n)
            arg == IF s.n \in C.probes THEN Lam("arg") ELSE "0"
            skip == \/ r.t = "ns"                                   \* calling a namespace: not a resolution matter
                    \/ C.mode.prune /\ r.t \in {"unres", "clash"}
                    \/ C.mode.safe /\ tainted
            pos == Pos(C, st, st.off, st.off + Len(s.n))
            st1 == Tag(Put(st, s.n \o "(" \o arg \o ")"), r.t)
        IN IF skip THEN st
           ELSE [st1 EXCEPT !.unres = IF r.t = "unres" THEN @ \cup {pos} ELSE @,
                            !.undet = IF r.t = "clash" THEN @ \cup {pos} ELSE @,
                            !.out = @ \o OutOf(C, r),
                            !.ntaint = IF tainted THEN @ + 1 ELSE @]
    [] s.k = "quse" ->
        LET r == Resolve(C, st.env, s.p)
            tainted == Tainted(st.env, s.p)
            o1 == st.off + Len(s.p) + 1
            ppos == Pos(C, st, st.off, st.off + Len(s.p))
            fpos == Pos(C, st, o1, o1 + Len(s.n))
            v == CASE r.t = "ns" -> (IF s.n \in DeclNames(FileOf(C.P, r.file)) THEN "q-fn" ELSE "q-unres-field")
                   [] r.t = "unres" -> "q-unres-prefix"
                   [] r.t = "clash" -> "q-clash"
                   [] OTHER -> "q-nonns"                            \* member access on a function / variable
            skip == \/ v = "q-nonns"
                    \/ C.mode.prune /\ v # "q-fn"
                    \/ C.mode.safe /\ tainted
            st1 == Tag(Put(st, s.p \o "." \o s.n \o "(0)"), v)
        IN IF skip THEN st
           ELSE [st1 EXCEPT !.unres = CASE v = "q-unres-prefix" -> @ \cup {ppos}
                                        [] v = "q-unres-field" -> @ \cup {fpos}
                                        [] OTHER -> @,
                            !.undet = IF v = "q-clash" THEN @ \cup {ppos, fpos} ELSE @,
                            !.out = IF v = "q-fn" THEN @ \o OutOf(C, Fn(r.file, s.n)) ELSE @,
                            !.ntaint = IF tainted THEN @ + 1 ELSE @]
    [] s.k = "tuse" ->
        LET r == Resolve(C, st.env, s.n) IN
        IF r.t # "fn" THEN st
        ELSE LET v == s.n \o ".P" \o BaseOf(r.file)
                 a == Put(st, "match " \o v \o " {")
                 b == Put(a, v \o " -> println(\"" \o r.file \o "." \o s.n \o "\")")
                 c == Put(Put(b, "_ -> println(\"other\")"), "}")
             IN [Tag(c, "enum") EXCEPT !.out = @ \o r.file \o "." \o s.n \o "\n"]
    [] s.k = "let" ->
        LET label == "L" \o LineNo(st) \o "." \o s.n
        IN Bind(Put(st, "let " \o s.n \o ": int -> void = " \o Lam(label)), s.n, label)
    [] s.k = "scope" ->
        LET ln == LineNo(st)
            label == "L" \o ln \o "." \o s.b
            pat == IF s.b = "" THEN "_" ELSE s.b
            patScope == IF s.b = "" THEN EmptyScope
                        ELSE [bind |-> (s.b :> label), taint |-> {}, infer |-> IF s.kind \in {"match", "match2"} THEN {s.b} ELSE {}]
            letFirst(x) == IF s.b = "" THEN x ELSE Bind(Put(x, "let " \o s.b \o ": int -> void = " \o Lam("L" \o LineNo(x) \o "." \o s.b)),
                                                        s.b, "L" \o LineNo(x) \o "." \o s.b)
        IN CASE s.kind = "block" ->
                  Pop(Put(WalkS(C, s.body, letFirst(Push(Put(st, "{"), EmptyScope))), "}"))
             [] s.kind = "if" ->
                  Pop(Put(WalkS(C, s.body, letFirst(Push(Put(st, "if true {"), EmptyScope))), "}"))
             [] s.kind = "while" ->
                  LET w == "w" \o ln
                      a == Put(Put(Put(st, "var " \o w \o " = true"), "while " \o w \o " {"), w \o " = false")
                  IN Pop(Put(WalkS(C, s.body, letFirst(Push(a, EmptyScope))), "}"))
             [] s.kind = "for" ->
                  \* the iterable is outside the loop variable's scope: where the binder's name already denotes a local
                  \* (a lambda) every other loop iterates over `[b]` - the b of the header is the outer one, and the loop
                  \* variable carries that binding's label
                  LET r == "r" \o ln
                      outer == IF s.b = "" THEN Other("unres") ELSE Resolve(C, st.env, s.b)
                      self == outer.t = "local" /\ ~Tainted(st.env, s.b) /\ ~Inferred(st.env, s.b) /\ Len(st.lines) % 2 = 0
                      a == IF self THEN Put(st, "for " \o s.b \o " in [" \o s.b \o "] {")
                           ELSE Put(Put(st, "let " \o r \o ": array<int -> void> = [" \o Lam(label) \o "]"),
                                    "for " \o pat \o " in " \o r \o " {")
                      sc == IF self THEN [bind |-> (s.b :> outer.name), taint |-> {}, infer |-> {}] ELSE patScope
                      b == Pop(Put(WalkS(C, s.body, Push(IF self THEN Tag(a, "for-self") ELSE a, sc)), "}"))
                      k == Len(b.env)
                  IN IF s.b = "" THEN b ELSE [b EXCEPT !.env[k].taint = @ \cup {s.b}]
             [] s.kind = "match" ->
                  LET a == Put(Put(st, "match (" \o Lam(label) \o ") {"), pat \o " -> {")
                  IN Pop(Put(Put(WalkS(C, s.body, Push(a, patScope)), "}"), "}"))
             \* two arms: the first one (which does not match at run time) binds the name, the body is in the second arm,
             \* where that binding must not be visible
             [] s.kind = "match2" ->
                  LET a == Put(Put(Put(st, "match (0, " \o Lam(label) \o ") {"), "(1, " \o pat \o ") -> { println(\"never\") }"), "(_, _) -> {")
                  IN Pop(Put(Put(WalkS(C, s.body, Push(a, EmptyScope)), "}"), "}"))

ImportLine(imp) ==
  LET lst == IF Len(imp.names) = 1 THEN imp.names[1] ELSE "(" \o JoinC(imp.names) \o ")"
  IN CASE imp.form = "glob" -> "use " \o imp.target
       [] imp.form = "incl" -> "use " \o imp.target \o "." \o lst
       [] imp.form = "excl" -> "use " \o imp.target \o " except " \o lst
       [] imp.form = "as"   -> "use " \o imp.target \o " as " \o imp.alias

RECURSIVE WalkImports(_, _, _), WalkDecls(_, _, _), WalkFns(_, _, _)
WalkImports(C, imps, st) ==
  IF imps = <<>> THEN st
  ELSE LET line == ImportLine(imps[1])
           st1 == Put(st, line)
           st2 == IF HasFile(C.P, imps[1].target) THEN st1
                  ELSE [st1 EXCEPT !.unres = @ \cup {Pos(C, st, st.off, st.off + Len(line))}, !.tags = Append(@, "missing-file")]
       IN WalkImports(C, Tail(imps), st2)
WalkDecls(C, ds, st) ==
  IF ds = <<>> THEN st
  ELSE WalkDecls(C, Tail(ds),
         IF C.F.dk = "enum"
         THEN Put(st, "type " \o ds[1] \o " = | P" \o BaseOf(C.F.name) \o " | Q" \o BaseOf(C.F.name))
         ELSE Put(st, "fn " \o ds[1] \o "(z: int) { println(\"" \o C.F.name \o "." \o ds[1] \o "\") }"))
\* a probe function: its parameter guards the body; what a call of it prints is remembered in declout
WalkFns(C, fns, st) ==
  IF fns = <<>> THEN [st |-> st, declout |-> C.declout]
  ELSE LET f == fns[1]
           a == Put(st, "fn " \o f.name \o "(" \o f.param \o ": int -> void) {")
           b == WalkS(C, f.body, [a EXCEPT !.env = <<[bind |-> (f.param :> "arg"), taint |-> {}, infer |-> {}], EmptyScope>>, !.out = ""])
           c == [Put(b, "}") EXCEPT !.env = st.env, !.out = st.out]
           d == (Fn(C.F.name, f.name) :> b.out) @@ C.declout
       IN WalkFns([C EXCEPT !.declout = d], Tail(fns), c)

St0 == [lines |-> <<>>, off |-> 0, env |-> <<>>, out |-> "", unres |-> {}, undet |-> {}, tags |-> <<>>, ntaint |-> 0]

FileWalk(P, F, mode, declout) ==
  LET C == [P |-> P, F |-> F, mode |-> mode, declout |-> declout, scope |-> FileScope(P, F), probes |-> ProbeNames(P)]
      s1 == WalkImports(C, F.imports, St0)
      s2 == IF F.declsLast THEN s1 ELSE WalkDecls(C, F.decls, s1)
      w == WalkFns(C, F.fns, s2)
      C2 == [C EXCEPT !.declout = w.declout]
      s3 == WalkS(C2, F.body, [w.st EXCEPT !.env = <<EmptyScope>>])
      s4 == IF F.declsLast THEN WalkDecls(C, F.decls, s3) ELSE s3
  IN [st |-> s4, declout |-> w.declout]

\* files are walked last to first: a file may only import later files, so what its imports'
\* probe functions print is known when its own body is walked
RECURSIVE EvalFrom(_, _, _)
EvalFrom(P, i, mode) ==
  IF i > Len(P.files) THEN [declout |-> <<>>, sts |-> <<>>]
  ELSE LET rest == EvalFrom(P, i + 1, mode)
           w == FileWalk(P, P.files[i], mode, rest.declout)
       IN [declout |-> w.declout, sts |-> <<w.st>> \o rest.sts]

\* the expected observation of the whole program
Verdict(P, mode) ==
  LET E == EvalFrom(P, 1, mode)
      L == {i \in DOMAIN P.files : P.files[i].name \in Loaded(P)}
      clashes == UNION {ClashNames(P, P.files[i]) : i \in L}
      unres == UNION {E.sts[i].unres : i \in L}
      undet == UNION {E.sts[i].undet : i \in L}
      ok == clashes = {} /\ unres = {} /\ undet = {}
  IN [ok |-> ok,
      files |-> [n \in {P.files[i].name \o ".abra" : i \in DOMAIN P.files} |->
                   E.sts[CHOOSE i \in DOMAIN P.files : P.files[i].name \o ".abra" = n].lines],
      \* a program with diagnostics is observed through the checker (harness mode "check": the rendered diagnostics,
      \* each with message, file:line:column and underlined length), a clean one is compiled and run
      mode |-> IF ok THEN "run" ELSE "check",
      expect |-> IF ok THEN [compile |-> "ok", status |-> "done", out |-> E.sts[1].out] ELSE [check |-> "diag"],
      expect_diags |-> [unresolved |-> unres, clash |-> {ClashMsg(n) : n \in clashes}],
      ignore |-> undet,
      tags |-> [i \in DOMAIN P.files |-> IF i \in L THEN E.sts[i].tags ELSE <<>>],
      nclash |-> Cardinality(clashes), nunres |-> Cardinality(unres),
      ntaint |-> E.sts[1].ntaint,
      nlines |-> [i \in DOMAIN P.files |-> Len(E.sts[i].lines)]]
=============================================================================
