------------------------------- MODULE Arena -------------------------------
(* The bump allocator utils::arena::Arena (C38), address arithmetic only.

   An arena is [bufs, off, allocs]:
     bufs    sequence of buffers [len, resid] in allocation order, the last one is current_buf; old buffers are
             kept (never freed or moved) until the arena is dropped; `resid` is the buffer's base address
             modulo MaxAlign: the buffers are Box<[MaybeUninit<u8>]>, alignment 1, so the allocator promises
             nothing about it and the model leaves it arbitrary (0..MaxAlign-1);
     off     the bump offset;
     allocs  every allocation made so far: [buf, start, size, align] (start = offset inside buffer buf).

   AllocAsWritten transcribes Arena::alloc of utils/src/arena.rs: padding is computed from the offset (not
   from the address), and after switching to a new buffer the offset is *not* reset.
   AllocRepaired is the reference: padding from the address, offset reset on switch, and a new buffer that is
   large enough for the value plus worst-case padding.

   What "memory-safe" means for an allocation sequence (the property's statement): InBounds, Aligned and
   Disjoint below hold for all allocations, for every choice of the base residues. *)
EXTENDS Integers, Sequences, FiniteSets
CONSTANT MaxAlign

Max2(a, b) == IF a >= b THEN a ELSE b
Pad(x, align) == (align - (x % align)) % align
Residues == 0..MaxAlign-1

InitArena(cap, resid) == [bufs |-> <<[len |-> cap, resid |-> resid]>>, off |-> 0, allocs |-> <<>>]
Cur(a) == a.bufs[Len(a.bufs)]

\* ---------------------------------------------------------------- as written
SwitchesAsWritten(a, size, align) == a.off + Pad(a.off, align) + size > Cur(a).len

AllocAsWritten(a, size, align, newResid) ==
  LET padding == Pad(a.off, align)                               \* (align - offset % align) % align
      switch  == a.off + padding + size > Cur(a).len             \* new_offset > current_buf.len()
      newcap  == Max2(Cur(a).len * 2, size)                      \* double, at least one T
      bufs1   == IF switch THEN Append(a.bufs, [len |-> newcap, resid |-> newResid]) ELSE a.bufs
      start   == a.off + padding                                 \* offset is not reset after a switch
  IN [bufs |-> bufs1, off |-> start + size,
      allocs |-> Append(a.allocs, [buf |-> Len(bufs1), start |-> start, size |-> size, align |-> align])]

\* ---------------------------------------------------------------- repaired (reference)
SwitchesRepaired(a, size, align) == a.off + Pad(Cur(a).resid + a.off, align) + size > Cur(a).len

AllocRepaired(a, size, align, newResid) ==
  LET switch  == SwitchesRepaired(a, size, align)
      newcap  == Max2(Cur(a).len * 2, size + align - 1)          \* room for the value and any padding
      bufs1   == IF switch THEN Append(a.bufs, [len |-> newcap, resid |-> newResid]) ELSE a.bufs
      start   == IF switch THEN Pad(newResid, align) ELSE a.off + Pad(Cur(a).resid + a.off, align)
  IN [bufs |-> bufs1, off |-> start + size,
      allocs |-> Append(a.allocs, [buf |-> Len(bufs1), start |-> start, size |-> size, align |-> align])]

\* ---------------------------------------------------------------- the property
AllocInBounds(a, x) == x.start + x.size <= a.bufs[x.buf].len
AllocAligned(a, x)  == (a.bufs[x.buf].resid + x.start) % x.align = 0
AllocsDisjoint(x, y) == x.buf # y.buf \/ x.size = 0 \/ y.size = 0 \/ x.start + x.size <= y.start \/ y.start + y.size <= x.start

InBounds(a) == \A i \in 1..Len(a.allocs) : AllocInBounds(a, a.allocs[i])
Aligned(a)  == \A i \in 1..Len(a.allocs) : AllocAligned(a, a.allocs[i])
Disjoint(a) == \A i, j \in 1..Len(a.allocs) : i < j => AllocsDisjoint(a.allocs[i], a.allocs[j])

\* ---------------------------------------------------------------- the same predicates on observed addresses
\* An observed address is [hi, lo] = [addr \div 2^20, addr % 2^20] (TLC integers are 32 bit).
AddrPlus(p, n) == IF p.lo + n >= 1048576 THEN [hi |-> p.hi + 1, lo |-> p.lo + n - 1048576] ELSE [hi |-> p.hi, lo |-> p.lo + n]
AddrLeq(p, q) == p.hi < q.hi \/ (p.hi = q.hi /\ p.lo <= q.lo)
ObsAligned(o)     == o.lo % o.align = 0                       \* align divides 2^20
ObsDisjoint(o, p) == o.size = 0 \/ p.size = 0 \/ AddrLeq(AddrPlus(o, o.size), p) \/ AddrLeq(AddrPlus(p, p.size), o)
=============================================================================
