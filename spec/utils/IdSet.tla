------------------------------- MODULE IdSet -------------------------------
(* Reference model of utils::id_set::IdSet<T> (C37): "a map plus a vector".

   An instance is the sequence of its distinct values in insertion order; the id of a value is its
   0-based position. That is the whole contract stated in utils/src/id_set.rs:
     - elements are unique, have unique ids, can be retrieved by id, ids are stable,
     - iteration is in order of insertion.
   Several instances live in numbered slots; clone copies an instance into a dead slot and the two are
   independent afterwards (Clone of a value type); drop/consume kill a slot. *)
EXTENDS Integers, Sequences, FiniteSets

Has(vals, v)  == \E i \in 1..Len(vals) : vals[i] = v
IdOf(vals, v) == IF Has(vals, v) THEN (CHOOSE i \in 1..Len(vals) : vals[i] = v) - 1 ELSE -1   \* try_get_id, -1 = None
Distinct(vals) == \A i, j \in 1..Len(vals) : vals[i] = vals[j] => i = j

\* ------------------------------------------------------------------ one instance
InsertVals(vals, v) == IF Has(vals, v) THEN vals ELSE Append(vals, v)
InsertId(vals, v)   == IF Has(vals, v) THEN IdOf(vals, v) ELSE Len(vals)      \* what insert returns

\* What the safe read-only API shows of an instance. probe: sequence of values that are looked up.
\* Index / IndexMut outside 0..len-1 and get_id of an absent value panic (a defined outcome).
Project(vals, probe) ==
  [live |-> TRUE, len |-> Len(vals), empty |-> (Len(vals) = 0),
   iter |-> vals, iter_ref_agrees |-> TRUE,
   ids |-> [i \in 1..Len(probe) |-> IdOf(vals, probe[i])],
   has |-> [i \in 1..Len(probe) |-> Has(vals, probe[i])],
   \* get_id panics (-2) on an absent value; the harness calls it for present values and for the last probe value
   \* only (-3 = not called)
   get_id |-> [i \in 1..Len(probe) |-> IF Has(vals, probe[i]) THEN IdOf(vals, probe[i])
                                         ELSE IF i = Len(probe) THEN -2 ELSE -3],
   at |-> vals, at_mut |-> vals, at_len |-> "panic"]

\* ------------------------------------------------------------------ slots
DeadSlot == [live |-> FALSE, vals |-> <<>>]
InitSlots(n) == [i \in 1..n |-> IF i = 1 THEN [live |-> TRUE, vals |-> <<>>] ELSE DeadSlot]

\* operations are records; slot numbers s, d are 0-based (as in the harness)
Enabled(slots, op) ==
  /\ op.s + 1 \in 1..Len(slots) /\ slots[op.s + 1].live
  /\ op.op \in {"clone", "move"} => (op.d + 1 \in 1..Len(slots) /\ ~slots[op.d + 1].live)

Apply(slots, op) ==
  LET s == op.s + 1
      cur == slots[s].vals
  IN CASE op.op = "insert"  -> [slots EXCEPT ![s].vals = InsertVals(cur, op.v)]
       [] op.op = "clear"   -> [slots EXCEPT ![s].vals = <<>>]
       [] op.op = "clone"   -> [slots EXCEPT ![op.d + 1] = slots[s]]
       [] op.op = "move"    -> [slots EXCEPT ![op.d + 1] = slots[s], ![s] = DeadSlot]
       [] op.op = "drop"    -> [slots EXCEPT ![s] = DeadSlot]
       [] op.op = "consume" -> [slots EXCEPT ![s] = DeadSlot]

\* the value an operation returns (echoing the operation name)
Ret(slots, op) ==
  LET cur == slots[op.s + 1].vals
  IN CASE op.op = "insert"  -> [op |-> "insert", id |-> InsertId(cur, op.v)]
       [] op.op = "consume" -> [op |-> "consume", items |-> cur]          \* into_iter yields insertion order
       [] OTHER             -> [op |-> op.op]

ProjectAll(slots, probe) ==
  [i \in 1..Len(slots) |-> IF slots[i].live THEN Project(slots[i].vals, probe) ELSE [live |-> FALSE]]

\* ------------------------------------------------------------------ laws of the model (checked by TLC in C37mc)
WellFormed(slots) == \A i \in 1..Len(slots) : Distinct(slots[i].vals)
\* ids are stable: an operation other than clear/drop on that slot never changes the id of a present value
StableIds(slots, op, slots2) ==
  \A i \in 1..Len(slots) :
     (slots[i].live /\ slots2[i].live /\ ~(op.op = "clear" /\ op.s + 1 = i)) =>
        \A k \in 1..Len(slots[i].vals) :
           k <= Len(slots2[i].vals) /\ slots2[i].vals[k] = slots[i].vals[k]
\* clone independence: an operation addressed to one slot leaves every other live slot unchanged
Independent(slots, op, slots2) ==
  \A i \in 1..Len(slots) :
     (i # op.s + 1 /\ ~(op.op \in {"clone", "move"} /\ i = op.d + 1)) => slots2[i] = slots[i]
=============================================================================
