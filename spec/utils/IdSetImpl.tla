----------------------------- MODULE IdSetImpl -----------------------------
(* utils::id_set::IdSet<T> *as written* (utils/src/id_set.rs), at the level the bug class lives on:
   heap buffers (current_buf, old_bufs: Vec<T> that are never reallocated) and raw pointers into them
   (map: HashMap<Ptr<T>, u32> hashed/compared through the pointer, id_to_ptr: Vec<*mut T>).

   DeepClone = FALSE is #[derive(Clone)] as written: the buffers are copied, the pointers are copied
   verbatim and therefore still point into the *source's* buffers.
   DeepClone = TRUE is the repaired design: pointers are re-targeted to the copied buffers.

   A buffer is [cap, len, mem, freed]: mem holds every value ever written to slots 1..Len(mem); slots
   above len are stale leftovers (memory still allocated, value dropped). A pointer is [buf, idx].
   A map entry is [buf, idx, id, key], key = the value under which the entry was hashed on insertion. *)
EXTENDS Integers, Sequences, FiniteSets
CONSTANT DeepClone

NewBuf(cap) == [cap |-> cap, len |-> 0, mem |-> <<>>, freed |-> FALSE]
DeadInst == [live |-> FALSE, map |-> {}, cur |-> 0, old |-> <<>>, idp |-> <<>>]
SeqRange(q) == {q[i] : i \in 1..Len(q)}
Max2(a, b) == IF a >= b THEN a ELSE b

\* IdSet::new() in slot 1 (Vec::new(): capacity 0)
InitImpl(n) == [heap |-> <<NewBuf(0)>>,
                inst |-> [i \in 1..n |-> IF i = 1 THEN [live |-> TRUE, map |-> {}, cur |-> 1, old |-> <<>>, idp |-> <<>>]
                                                  ELSE DeadInst]]

Owned(I) == {I.cur} \cup SeqRange(I.old)

ImplInsert(st, s, v) ==
  LET I     == st.inst[s]
      cb    == st.heap[I.cur]
      grow  == cb.len + 1 > cb.cap                       \* "alloc if necessary": a new buffer, the old one is kept
      heap1 == IF grow THEN Append(st.heap, NewBuf(2 * Max2(cb.cap, 1))) ELSE st.heap
      cur1  == IF grow THEN Len(heap1) ELSE I.cur
      old1  == IF grow THEN Append(I.old, I.cur) ELSE I.old
      b     == heap1[cur1]
      idx   == b.len + 1
      mem1  == [i \in 1..Max2(Len(b.mem), idx) |-> IF i = idx THEN v ELSE b.mem[i]]
      pushed == [heap1 EXCEPT ![cur1] = [b EXCEPT !.len = idx, !.mem = mem1]]
      popped == [heap1 EXCEPT ![cur1] = [b EXCEPT !.mem = mem1]]      \* duplicate: pushed then popped again
      hit   == {e \in I.map : e.key = v}
      newid == Cardinality(I.map)
  IN IF hit # {}
     THEN [heap |-> popped, inst |-> [st.inst EXCEPT ![s] = [I EXCEPT !.cur = cur1, !.old = old1]]]
     ELSE [heap |-> pushed,
           inst |-> [st.inst EXCEPT ![s] = [I EXCEPT !.cur = cur1, !.old = old1,
                        !.map = @ \cup {[buf |-> cur1, idx |-> idx, id |-> newid, key |-> v]},
                        !.idp = Append(@, [buf |-> cur1, idx |-> idx])]]]

\* clear(): map.clear(); current_buf.clear() keeps its allocation; old_bufs.clear() frees them; id_to_ptr.clear()
ImplClear(st, s) ==
  LET I == st.inst[s]
  IN [heap |-> [b \in 1..Len(st.heap) |->
                  IF b = I.cur THEN [st.heap[b] EXCEPT !.len = 0]
                  ELSE IF b \in SeqRange(I.old) THEN [st.heap[b] EXCEPT !.freed = TRUE, !.len = 0]
                  ELSE st.heap[b]],
      inst |-> [st.inst EXCEPT ![s] = [I EXCEPT !.map = {}, !.old = <<>>, !.idp = <<>>]]]

\* drop / into_iter: every buffer of the instance is freed
ImplDrop(st, s) ==
  LET I == st.inst[s]
  IN [heap |-> [b \in 1..Len(st.heap) |-> IF b \in Owned(I) THEN [st.heap[b] EXCEPT !.freed = TRUE, !.len = 0] ELSE st.heap[b]],
      inst |-> [st.inst EXCEPT ![s] = DeadInst]]

ImplMove(st, s, d) == [st EXCEPT !.inst = [@ EXCEPT ![d] = st.inst[s], ![s] = DeadInst]]

\* clone(): Vec<T>::clone allocates exactly len slots and copies the live prefix
ImplClone(st, s, d) ==
  LET I    == st.inst[s]
      srcs == I.old \o <<I.cur>>                                  \* buffers in order
      n    == Len(st.heap)
      copy(b) == [cap |-> st.heap[b].len, len |-> st.heap[b].len,
                  mem |-> SubSeq(st.heap[b].mem, 1, st.heap[b].len), freed |-> FALSE]
      heap1 == st.heap \o [k \in 1..Len(srcs) |-> copy(srcs[k])]
      new(b) == n + (CHOOSE k \in 1..Len(srcs) : srcs[k] = b)      \* where buffer b was copied to
      tr(b)  == IF DeepClone /\ b \in SeqRange(srcs) THEN new(b) ELSE b
      J == [live |-> TRUE,
            map |-> {[e EXCEPT !.buf = tr(e.buf)] : e \in I.map},
            cur |-> n + Len(srcs),
            old |-> [k \in 1..Len(I.old) |-> n + k],
            idp |-> [k \in 1..Len(I.idp) |-> [I.idp[k] EXCEPT !.buf = tr(I.idp[k].buf)]]]
  IN [heap |-> heap1, inst |-> [st.inst EXCEPT ![d] = J]]

ImplApply(st, op) ==
  CASE op.op = "insert"  -> ImplInsert(st, op.s + 1, op.v)
    [] op.op = "clear"   -> ImplClear(st, op.s + 1)
    [] op.op = "clone"   -> ImplClone(st, op.s + 1, op.d + 1)
    [] op.op = "move"    -> ImplMove(st, op.s + 1, op.d + 1)
    [] op.op = "drop"    -> ImplDrop(st, op.s + 1)
    [] op.op = "consume" -> ImplDrop(st, op.s + 1)

\* ------------------------------------------------------------------ what a pointer of an instance points at
\* severity: 4 freed (use after free), 3 stale (slot above len: value dropped), 2 reused (slot holds another value),
\*           1 shared (valid, but inside a buffer of another instance), 0 fine
PtrRisk(st, I, p, want) ==
  LET b == st.heap[p.buf]
  IN IF b.freed THEN 4
     ELSE IF p.idx > b.len THEN 3
     ELSE IF b.mem[p.idx] # want THEN 2
     ELSE IF p.buf \notin Owned(I) THEN 1
     ELSE 0

KeyOfId(I, id) == (CHOOSE e \in I.map : e.id = id).key
InstRisk(st, I) ==
  LET rs == {PtrRisk(st, I, [buf |-> e.buf, idx |-> e.idx], e.key) : e \in I.map}
            \cup {PtrRisk(st, I, I.idp[k], KeyOfId(I, k - 1)) : k \in 1..Len(I.idp)}
  IN IF rs = {} THEN 0 ELSE CHOOSE r \in rs : \A q \in rs : q <= r
RiskLevel(st) ==
  LET rs == {InstRisk(st, st.inst[i]) : i \in {j \in 1..Len(st.inst) : st.inst[j].live}}
  IN IF rs = {} THEN 0 ELSE CHOOSE r \in rs : \A q \in rs : q <= r
RiskName(r) == CASE r = 0 -> "" [] r = 1 -> "shared-live" [] r = 2 -> "reused-slot" [] r = 3 -> "stale-slot" [] r = 4 -> "freed-buffer"

\* ------------------------------------------------------------------ abstraction to the reference model
\* the values of an instance as its own buffers hold them, in buffer order (this is what iter() walks)
BufVals(st, I) ==
  LET srcs == I.old \o <<I.cur>>
      F[k \in 0..Len(srcs)] == IF k = 0 THEN <<>> ELSE F[k-1] \o SubSeq(st.heap[srcs[k]].mem, 1, st.heap[srcs[k]].len)
  IN F[Len(srcs)]
\* the values as the id table sees them (reads through the raw pointers; only meaningful when no pointer dangles)
IdVals(st, I) == [k \in 1..Len(I.idp) |-> st.heap[I.idp[k].buf].mem[I.idp[k].idx]]
=============================================================================
