----------------------------- MODULE Cases -----------------------------
(* Shapes of the cases handed to the conformance harness and of the expected observations. *)
EXTENDS Render, Json, IOUtils

FilesOf(texts) == [n \in {texts[i].name : i \in 1..Len(texts)} |->
                     texts[CHOOSE i \in 1..Len(texts) : texts[i].name = n].text]

\* expected observation of a run, from AbraSem!Run
ExpectOf(r) ==
  IF r.status = "done"
  THEN [status |-> "done", out |-> r.out] @@
       (IF r.result.ty # "none" THEN [result |-> r.result.v] ELSE <<>>)
  ELSE [status |-> "error", out |-> r.out, errkind |-> r.err.kind,
        errloc |-> r.err.loc, errtrace |-> r.err.trace] @@
       (IF r.err.kind = "panic" /\ r.err.msg # "" THEN [errmsg |-> r.err.msg] ELSE <<>>)

RunCase(id, L, r) ==
  [id |-> id, files |-> FilesOf(L.texts), inmodel |-> r.inmodel, expect |-> ExpectOf(r)] @@
  (IF r.status = "done" /\ r.result.ty # "none" THEN [result |-> r.result.ty] ELSE <<>>)
=============================================================================
