----------------------------- MODULE Render -----------------------------
(***************************************************************************)
(* AST -> concrete Abra syntax.  One statement per line at statement level *)
(* (so that the line of every statement is known to the specification);    *)
(* blocks nested inside expressions are rendered inline with `;`.          *)
(* Rendering and line annotation happen in the same traversal, so the `ln` *)
(* fields used by AbraSem for error locations agree with the text by       *)
(* construction.  Parentheses follow the documented precedence table       *)
(* (operators.md): and/or 1, == != 2, .. 3, < <= > >= 5, + - 6, * / 7,     *)
(* % 8, ^ 9, all left associative.  This renderer is deliberately          *)
(* conservative around unary operators and negative literals (C31 has its  *)
(* own minimal-parenthesis renderer).                                      *)
(***************************************************************************)
EXTENDS AbraSem

NoD == [k |-> "none"]          \* "no default value"

Prec(op) == CASE op \in {"and", "or"} -> 1 [] op \in {"==", "!="} -> 2 [] op = ".." -> 3
              [] op \in {"<", "<=", ">", ">="} -> 5 [] op \in {"+", "-"} -> 6
              [] op \in {"*", "/"} -> 7 [] op = "%" -> 8 [] op = "^" -> 9

RECURSIVE JoinS(_, _)
JoinS(ss, sep) == IF ss = <<>> THEN "" ELSE IF Len(ss) = 1 THEN ss[1] ELSE ss[1] \o sep \o JoinS(Tail(ss), sep)
RECURSIVE Ind(_)
Ind(n) == IF n = 0 THEN "" ELSE "  " \o Ind(n - 1)

EscapeChar(c) == CASE c = "\"" -> "\\\"" [] c = "\\" -> "\\\\" [] c = "\n" -> "\\n" [] c = "\t" -> "\\t" [] OTHER -> c
RECURSIVE Escape(_)
Escape(s) == IF s = "" THEN "" ELSE EscapeChar(SubSeq(s, 1, 1)) \o Escape(SubSeq(s, 2, Len(s)))
StrLit(s) == "\"" \o Escape(s) \o "\""

RECURSIVE RP(_), RPs(_)
RP(p) ==
  CASE p.k = "wild" -> "_"
    [] p.k = "bind" -> p.n
    [] p.k = "lit"  -> (CASE p.v.t = "int" -> ToString(p.v.v) [] p.v.t = "bool" -> (IF p.v.v THEN "true" ELSE "false")
                          [] p.v.t = "str" -> StrLit(p.v.v) [] p.v.t = "nil" -> "nil"
                          [] p.v.t = "flt" -> LitFlt(p.v.n, p.v.e))
    [] p.k = "tup"  -> "(" \o JoinS(RPs(p.ps), ", ") \o ")"
    [] p.k = "var"  -> "." \o p.c \o (IF p.ps = <<>> THEN "" ELSE "(" \o JoinS(RPs(p.ps), ", ") \o ")")
    [] p.k = "struct" -> p.n \o "(" \o
         JoinS([i \in 1..Len(p.ps) |-> (IF p.fs = <<>> THEN "" ELSE p.fs[i] \o " = ") \o RP(p.ps[i])], ", ") \o ")"
    [] p.k = "or"   -> RP(p.l) \o " | " \o RP(p.r)
RPs(ps) == [i \in 1..Len(ps) |-> RP(ps[i])]

IsAtom(e) == \/ e.k \in {"bool", "str", "var", "call", "callv", "tup", "arr", "idx", "fld", "mcall", "new", "variant", "nil", "panic"}
             \/ e.k = "int" /\ e.v >= 0
             \/ e.k = "flt" /\ e.n >= 0

RECURSIVE RE(_, _), REs(_), RArgs(_), RInline(_), RInlineSS(_)
\* ctx: the smallest precedence that may appear here without parentheses (0 = anything)
RE(e, ctx) ==
  CASE e.k = "int"  -> IF e.v < 0 /\ ctx > 0 THEN "(" \o ToString(e.v) \o ")" ELSE ToString(e.v)
    [] e.k = "flt"  -> IF e.n < 0 /\ ctx > 0 THEN "(" \o LitFlt(e.n, e.e) \o ")" ELSE LitFlt(e.n, e.e)
    [] e.k = "bool" -> IF e.v THEN "true" ELSE "false"
    [] e.k = "str"  -> StrLit(e.v)
    [] e.k = "nil"  -> "nil"
    [] e.k = "var"  -> e.n
    [] e.k = "neg"  -> LET s == "-" \o (IF IsAtom(e.e) THEN RE(e.e, 99) ELSE "(" \o RE(e.e, 0) \o ")")
                       IN IF ctx > 0 THEN "(" \o s \o ")" ELSE s
    [] e.k = "not"  -> LET s == "not " \o (IF IsAtom(e.e) THEN RE(e.e, 99) ELSE "(" \o RE(e.e, 0) \o ")")
                       IN IF ctx > 0 THEN "(" \o s \o ")" ELSE s
    [] e.k = "bin"  -> LET p == Prec(e.op)
                           s == RE(e.l, p) \o " " \o e.op \o " " \o RE(e.r, p + 1)
                       IN IF p < ctx THEN "(" \o s \o ")" ELSE s
    [] e.k = "ife"  -> LET br(b) == IF b.k = "blk" THEN RInlineSS(b.ss) ELSE RE(b, 0)      \* a block branch needs no second pair of braces
                           s == "if " \o RE(e.c, 0) \o " { " \o br(e.t) \o " } else { " \o br(e.e) \o " }"
                       IN IF ctx > 0 THEN "(" \o s \o ")" ELSE s
    [] e.k = "blk"  -> "{ " \o RInlineSS(e.ss) \o " }"
    [] e.k = "tup"  -> "(" \o JoinS(REs(e.es), ", ") \o ")"
    [] e.k = "arr"  -> "[" \o JoinS(REs(e.es), ", ") \o "]"
    [] e.k = "new"  -> e.n \o "(" \o RArgs(e.args) \o ")"
    [] e.k = "variant" -> e.q \o "." \o e.c \o (IF e.es = <<>> THEN "" ELSE "(" \o JoinS(REs(e.es), ", ") \o ")")
    [] e.k = "fld"  -> RE(e.o, 99) \o "." \o e.f
    [] e.k = "idx"  -> RE(e.a, 99) \o "[" \o RE(e.i, 0) \o "]"
    [] e.k = "call" -> e.f \o "(" \o RArgs(e.args) \o ")"
    [] e.k = "callv" -> (IF IsAtom(e.f) THEN RE(e.f, 99) ELSE "(" \o RE(e.f, 0) \o ")") \o "(" \o JoinS(REs(e.es), ", ") \o ")"
    [] e.k = "lam"  -> LET s == "(" \o JoinS([i \in 1..Len(e.ps) |-> e.ps[i] \o
                                          (IF "ptys" \in DOMAIN e THEN ": " \o e.ptys[i] ELSE "")], ", ") \o ") -> " \o RE(e.body, 0)
                       IN IF ctx > 0 THEN "(" \o s \o ")" ELSE s
    [] e.k = "mcall" -> RE(e.o, 99) \o "." \o e.m \o "(" \o JoinS(REs(e.es), ", ") \o ")"
    [] e.k = "match" -> LET s == "match " \o RE(e.s, 0) \o " { " \o
                                 JoinS([i \in 1..Len(e.arms) |-> RP(e.arms[i].p) \o " -> " \o RE(e.arms[i].e, 0)], ", ") \o " }"
                        IN IF ctx > 0 THEN "(" \o s \o ")" ELSE s
    [] e.k = "try"  -> (IF IsAtom(e.e) THEN RE(e.e, 99) ELSE "(" \o RE(e.e, 0) \o ")") \o "?"
    [] e.k = "unwrap" -> (IF IsAtom(e.e) THEN RE(e.e, 99) ELSE "(" \o RE(e.e, 0) \o ")") \o "!"
    [] e.k = "panic" -> "panic(" \o RE(e.e, 0) \o ")"
REs(es) == [i \in 1..Len(es) |-> RE(es[i], 0)]
RArgs(args) == JoinS([i \in 1..Len(args) |-> (IF args[i].n = "" THEN "" ELSE args[i].n \o " = ") \o RE(args[i].e, 0)], ", ")

RIter(it) == CASE it.k = "count" -> RE(it.e, 0)
               [] it.k = "range" -> "range(" \o RE(it.a, 0) \o ", " \o RE(it.b, 0) \o ")"
               [] it.k = "array" -> RE(it.e, 0)

Ann(s) == IF "ty" \in DOMAIN s /\ s.ty # "" THEN ": " \o s.ty ELSE ""
\* one statement on one line (used inside expression blocks)
RInline(s) ==
  CASE s.k = "let"   -> "let " \o RP(s.p) \o Ann(s) \o " = " \o RE(s.e, 0)
    [] s.k = "var"   -> "var " \o RP(s.p) \o Ann(s) \o " = " \o RE(s.e, 0)
    [] s.k = "assign" -> RE(s.tgt, 0) \o " " \o s.op \o " " \o RE(s.e, 0)
    [] s.k = "expr"  -> RE(s.e, 0)
    [] s.k = "print" -> "println(" \o RE(s.e, 0) \o ")"
    [] s.k = "if"    -> "if " \o RE(s.c, 0) \o " { " \o RInlineSS(s.t) \o " }" \o
                        (IF s.e = <<>> THEN "" ELSE " else { " \o RInlineSS(s.e) \o " }")
    [] s.k = "while" -> "while " \o RE(s.c, 0) \o " { " \o RInlineSS(s.body) \o " }"
    [] s.k = "for"   -> "for " \o RP(s.p) \o " in " \o RIter(s.it) \o " { " \o RInlineSS(s.body) \o " }"
    [] s.k = "break" -> "break"
    [] s.k = "continue" -> "continue"
    [] s.k = "ret"   -> IF s.e.k = "nil" THEN "return" ELSE "return " \o RE(s.e, 0)
RInlineSS(ss) == JoinS([i \in 1..Len(ss) |-> RInline(ss[i])], "; ")

\* ---- multi-line layout: returns [lines |-> Seq(STRING), ss |-> annotated statements]
RECURSIVE LayS(_, _, _), LaySS(_, _, _)
LayS(s, ind, ln) ==
  IF s.k = "if" THEN
     LET t == LaySS(s.t, ind + 1, ln + 1)
         lnElse == ln + 1 + Len(t.lines)
         e == LaySS(s.e, ind + 1, lnElse + 1)
     IN IF s.e = <<>>
        THEN [lines |-> <<Ind(ind) \o "if " \o RE(s.c, 0) \o " {">> \o t.lines \o <<Ind(ind) \o "}">>,
              s |-> [s EXCEPT !.t = t.ss] @@ [ln |-> ln]]
        ELSE [lines |-> <<Ind(ind) \o "if " \o RE(s.c, 0) \o " {">> \o t.lines \o <<Ind(ind) \o "} else {">> \o e.lines \o <<Ind(ind) \o "}">>,
              s |-> [s EXCEPT !.t = t.ss, !.e = e.ss] @@ [ln |-> ln]]
  ELSE IF s.k = "while" THEN
     LET b == LaySS(s.body, ind + 1, ln + 1) IN
     [lines |-> <<Ind(ind) \o "while " \o RE(s.c, 0) \o " {">> \o b.lines \o <<Ind(ind) \o "}">>,
      s |-> [s EXCEPT !.body = b.ss] @@ [ln |-> ln]]
  ELSE IF s.k = "for" THEN
     LET b == LaySS(s.body, ind + 1, ln + 1) IN
     [lines |-> <<Ind(ind) \o "for " \o RP(s.p) \o " in " \o RIter(s.it) \o " {">> \o b.lines \o <<Ind(ind) \o "}">>,
      s |-> [s EXCEPT !.body = b.ss] @@ [ln |-> ln]]
  ELSE [lines |-> <<Ind(ind) \o RInline(s)>>, s |-> s @@ [ln |-> ln]]
LaySS(ss, ind, ln) ==
  IF ss = <<>> THEN [lines |-> <<>>, ss |-> <<>>]
  ELSE LET h == LayS(ss[1], ind, ln)
           r == LaySS(Tail(ss), ind, ln + Len(h.lines))
       IN [lines |-> h.lines \o r.lines, ss |-> <<h.s>> \o r.ss]

\* ---- declarations
RParam(p) == p.n \o (IF p.ty = "" THEN "" ELSE ": " \o p.ty) \o (IF p.d.k = "none" THEN "" ELSE " = " \o RE(p.d, 0))
\* `fn name(params) -> ret = expr` (style "expr": the body is one expression statement on the header line)
IsExprFn(d) == "style" \in DOMAIN d /\ d.style = "expr"
LayFn(d, file, ln) ==
  IF IsExprFn(d) THEN
  [lines |-> <<"fn " \o d.n \o "(" \o JoinS([i \in 1..Len(d.ps) |-> RParam(d.ps[i])], ", ") \o ")" \o
               (IF d.ret = "" THEN "" ELSE " -> " \o d.ret) \o " = " \o RE(d.body[1].e, 0)>>,
   d |-> [d EXCEPT !.body = <<d.body[1] @@ [ln |-> ln]>>] @@ [ln |-> ln, file |-> file]]
  ELSE
  LET b == LaySS(d.body, 1, ln + 1) IN
  [lines |-> <<"fn " \o d.n \o "(" \o JoinS([i \in 1..Len(d.ps) |-> RParam(d.ps[i])], ", ") \o ")" \o
               (IF d.ret = "" THEN "" ELSE " -> " \o d.ret) \o " {">> \o b.lines \o <<"}">>,
   d |-> [d EXCEPT !.body = b.ss] @@ [ln |-> ln, file |-> file]]

RType(t) ==
  IF t.k = "struct"
  THEN "type " \o t.n \o " = { " \o
       JoinS([i \in 1..Len(t.fs) |-> t.fs[i] \o ": " \o t.tys[i] \o (IF t.ds[i].k = "none" THEN "" ELSE " = " \o RE(t.ds[i], 0))], ", ") \o " }"
  ELSE "type " \o t.n \o " = " \o
       JoinS([i \in 1..Len(t.vs) |-> "| " \o t.vs[i].c \o (IF t.vs[i].tys = <<>> THEN "" ELSE "(" \o JoinS(t.vs[i].tys, ", ") \o ")")], " ")

RECURSIVE LayFns(_, _, _)
LayFns(fs, file, ln) ==
  IF fs = <<>> THEN [lines |-> <<>>, ds |-> <<>>]
  ELSE LET h == LayFn(fs[1], file, ln)
           r == LayFns(Tail(fs), file, ln + Len(h.lines))
       IN [lines |-> h.lines \o r.lines, ds |-> <<h.d>> \o r.ds]

\* file: [name, uses, types, fns, main] and optionally order: where the declarations stand relative to the statements
\*   "decls-first" (default)  types, functions, statements
\*   "fns-last"               types, statements, functions
\*   "main-first"             statements, types, functions
\* (declarations are visible in the whole file; the statements run in their textual order whatever lies between them)
LayFile(f) ==
  LET h == IF "header" \in DOMAIN f THEN f.header ELSE <<>>        \* raw leading lines (comments), shift every later line
      ord == IF "order" \in DOMAIN f THEN f.order ELSE "decls-first"
      u == h \o [i \in 1..Len(f.uses) |-> "use " \o f.uses[i]]
      t == [i \in 1..Len(f.types) |-> RType(f.types[i])]
  IN CASE ord = "decls-first" ->
            LET fn == LayFns(f.fns, f.name, 1 + Len(u) + Len(t))
                m == LaySS(f.main, 0, 1 + Len(u) + Len(t) + Len(fn.lines))
            IN [lines |-> u \o t \o fn.lines \o m.lines, fns |-> fn.ds, main |-> m.ss]
       [] ord = "fns-last" ->
            LET m == LaySS(f.main, 0, 1 + Len(u) + Len(t))
                fn == LayFns(f.fns, f.name, 1 + Len(u) + Len(t) + Len(m.lines))
            IN [lines |-> u \o t \o m.lines \o fn.lines, fns |-> fn.ds, main |-> m.ss]
       [] ord = "main-first" ->
            LET m == LaySS(f.main, 0, 1 + Len(u))
                fn == LayFns(f.fns, f.name, 1 + Len(u) + Len(m.lines) + Len(t))
            IN [lines |-> u \o m.lines \o t \o fn.lines, fns |-> fn.ds, main |-> m.ss]

RECURSIVE ConcatAll(_)
ConcatAll(ss) == IF ss = <<>> THEN <<>> ELSE ss[1] \o ConcatAll(Tail(ss))

\* prog: [files |-> Seq(file)], main file first.  Result: texts + the annotated program for AbraSem
Layout(prog) ==
  LET L == [i \in 1..Len(prog.files) |-> LayFile(prog.files[i])] IN
  [texts |-> [i \in 1..Len(prog.files) |-> [name |-> prog.files[i].name, text |-> JoinLines(L[i].lines)]],
   sem |-> [fns |-> ConcatAll([i \in 1..Len(prog.files) |-> L[i].fns]),
            structs |-> ConcatAll([i \in 1..Len(prog.files) |->
                           SelectSeq(prog.files[i].types, LAMBDA t : t.k = "struct")]),
            main |-> L[1].main, mainfile |-> prog.files[1].name]]

\* single-file convenience
File1(types, fns, main) == [files |-> <<[name |-> "main.abra", uses |-> <<>>, types |-> types, fns |-> fns, main |-> main]>>]
=============================================================================
