----------------------------- MODULE AbraGen -----------------------------
(***************************************************************************)
(* Typed random program generator for the Abra core language.  It is a     *)
(* set of RECURSIVE productions that only ever build well-typed ASTs (the  *)
(* typing environment is threaded through the productions); choices are    *)
(* drawn with RandomElement, so `tlc -simulate -seed S` yields a           *)
(* reproducible stream of programs.  AbraSem evaluates every generated     *)
(* program in the same TLC run; Render prints it.                          *)
(***************************************************************************)
EXTENDS Render

Pick(S) == RandomElement(S)
Chance(k, n) == Pick(1..n) <= k          \* true with probability k/n

\* ---- types (always records, so that TLC can compare them)
TInt == [k |-> "int"]   TBool == [k |-> "bool"]   TStr == [k |-> "str"]   TFlt == [k |-> "flt"]
TNil == [k |-> "nil"]
TArr(t) == [k |-> "arr", of |-> t]
TTup(ts) == [k |-> "tup", ts |-> ts]
TOpt(t) == [k |-> "opt", of |-> t]
TPoint == [k |-> "struct", n |-> "Point"]
TShape == [k |-> "enum", n |-> "Shape"]
TFn(ps, r) == [k |-> "fn", ps |-> ps, r |-> r]

RECURSIVE TyStr(_)
TyStr(t) == CASE t.k = "int" -> "int" [] t.k = "bool" -> "bool" [] t.k = "str" -> "string" [] t.k = "flt" -> "float"
              [] t.k = "nil" -> "void"
              [] t.k = "arr" -> "array<" \o TyStr(t.of) \o ">"
              [] t.k = "tup" -> "(" \o JoinS([i \in 1..Len(t.ts) |-> TyStr(t.ts[i])], ", ") \o ")"
              [] t.k = "opt" -> "option<" \o TyStr(t.of) \o ">"
              [] t.k \in {"struct", "enum"} -> t.n

\* the type declarations every generated program starts with
StdTypes == << [k |-> "struct", n |-> "Point", fs |-> <<"x", "y">>, tys |-> <<"int", "int">>, ds |-> <<NoD, NoD>>],
               [k |-> "enum", n |-> "Shape", vs |-> << [c |-> "Circle", tys |-> <<"int">>],
                                                       [c |-> "Rect", tys |-> <<"int", "int">>],
                                                       [c |-> "Dot", tys |-> <<>>] >>] >>

\* ---- AST helpers
I(v) == [k |-> "int", v |-> v]
Bl(v) == [k |-> "bool", v |-> v]
S(v) == [k |-> "str", v |-> v]
F(n, e) == [k |-> "flt", n |-> n, e |-> e]
V(n) == [k |-> "var", n |-> n]
PB(n) == [k |-> "bind", n |-> n]
Bin(op, l, r) == [k |-> "bin", op |-> op, l |-> l, r |-> r]
Arg(e) == [n |-> "", e |-> e]
Let(n, e) == [k |-> "let", p |-> PB(n), e |-> e, ty |-> ""]
Var(n, e) == [k |-> "var", p |-> PB(n), e |-> e, ty |-> ""]
PrintS(e) == [k |-> "print", e |-> e]
Assign(tgt, op, e) == [k |-> "assign", tgt |-> tgt, op |-> op, e |-> e]
ExprS(e) == [k |-> "expr", e |-> e]
If(c, t, e) == [k |-> "if", c |-> c, t |-> t, e |-> e]
Call(f, es) == [k |-> "call", f |-> f, args |-> [i \in 1..Len(es) |-> Arg(es[i])]]
MCall(o, m, es) == [k |-> "mcall", o |-> o, m |-> m, es |-> es]
Some(e) == [k |-> "variant", q |-> "option", c |-> "some", es |-> <<e>>]
None == [k |-> "variant", q |-> "option", c |-> "none", es |-> <<>>]

\* ---- environment: sequence of [n, ty, mut]; fns: sequence of [n, ps (types), r (type)]
VarsOf(env, ty) == {i \in 1..Len(env) : env[i].ty = ty}
MutOf(env, ty) == {i \in 1..Len(env) : env[i].ty = ty /\ env[i].mut}
FnsRet(fns, ty) == {i \in 1..Len(fns) : fns[i].r = ty}
LamsRet(env, ty) == {i \in 1..Len(env) : env[i].ty.k = "fn" /\ env[i].ty.r = ty}

Printable == {TInt, TBool, TStr, TFlt, TArr(TInt), TTup(<<TInt, TBool>>), TOpt(TInt), TTup(<<TInt, TStr>>)}
ValueTypes == {TInt, TInt, TInt, TBool, TBool, TStr, TFlt, TArr(TInt), TTup(<<TInt, TBool>>), TTup(<<TInt, TStr>>),
               TPoint, TShape, TOpt(TInt)}

\* the same environment with every variable immutable: expressions generated under it have no effect on variables
Frozen(env) == [i \in 1..Len(env) |-> [env[i] EXCEPT !.mut = FALSE]]

RECURSIVE GenE(_, _, _, _), GenArgs(_, _, _, _, _)
GenArgs(tys, env, fns, d, i) == IF i > Len(tys) THEN <<>> ELSE <<GenE(tys[i], env, fns, d)>> \o GenArgs(tys, env, fns, d, i + 1)

Leaf(ty, env) ==
  IF VarsOf(env, ty) # {} /\ Chance(2, 3) THEN V(env[Pick(VarsOf(env, ty))].n)
  ELSE CASE ty.k = "int"  -> (IF Chance(1, 8) THEN I(Pick({-3, -1, 12, 100, 1000})) ELSE I(Pick(0..9)))
         [] ty.k = "bool" -> Bl(Pick(BOOLEAN))
         [] ty.k = "str"  -> S(Pick({"a", "b", "xy", "", "hello world"}))
         [] ty.k = "flt"  -> F(Pick(-8..8), Pick(0..2))
         [] ty.k = "nil"  -> [k |-> "nil"]
         [] ty.k = "arr"  -> [k |-> "arr", es |-> [i \in 1..Pick(1..3) |-> I(Pick(0..9))]]
         [] ty.k = "tup"  -> [k |-> "tup", es |-> [i \in 1..Len(ty.ts) |->
                                 IF ty.ts[i].k = "int" THEN I(Pick(0..9)) ELSE IF ty.ts[i].k = "bool" THEN Bl(Pick(BOOLEAN)) ELSE S(Pick({"p", "q"}))]]
         [] ty.k = "opt"  -> Some(I(Pick(0..9)))       \* a bare `none` needs a type annotation: see Gen1
         [] ty.k = "struct" -> [k |-> "new", n |-> "Point", args |-> <<Arg(I(Pick(0..9))), Arg(I(Pick(0..9)))>>]
         [] ty.k = "enum" -> LET c == Pick({"Circle", "Rect", "Dot"}) IN
                             [k |-> "variant", q |-> "Shape", c |-> c,
                              es |-> IF c = "Circle" THEN <<I(Pick(0..9))>> ELSE IF c = "Rect" THEN <<I(Pick(0..9)), I(Pick(0..9))>> ELSE <<>>]

\* an expression of type ty; d bounds the depth
GenE(ty, env, fns, d) ==
  IF d = 0 \/ Chance(1, 4) THEN Leaf(ty, env)
  ELSE LET c == Pick(1..12) IN
   CASE ty.k = "int" ->
          (IF c <= 4 THEN Bin(Pick({"+", "+", "-", "*", "*", "/", "%"}), GenE(TInt, env, fns, d - 1), GenE(TInt, env, fns, d - 1))
           ELSE IF c = 5 THEN [k |-> "ife", c |-> GenE(TBool, env, fns, d - 1), t |-> GenE(TInt, env, fns, d - 1), e |-> GenE(TInt, env, fns, d - 1)]
           ELSE IF c = 6 /\ FnsRet(fns, TInt) # {} THEN
                LET f == fns[Pick(FnsRet(fns, TInt))] IN Call(f.n, GenArgs(f.ps, env, fns, d - 1, 1))
           ELSE IF c = 7 /\ VarsOf(env, TArr(TInt)) # {} THEN
                LET a == V(env[Pick(VarsOf(env, TArr(TInt)))].n) IN
                IF Chance(1, 2) THEN MCall(a, "len", <<>>) ELSE [k |-> "idx", a |-> a, i |-> GenE(TInt, env, fns, 0)]
           ELSE IF c = 8 /\ VarsOf(env, TPoint) # {} THEN
                [k |-> "fld", o |-> V(env[Pick(VarsOf(env, TPoint))].n), f |-> Pick({"x", "y"})]
           ELSE IF c = 9 /\ VarsOf(env, TShape) # {} THEN
                [k |-> "match", s |-> V(env[Pick(VarsOf(env, TShape))].n), arms |-> <<
                    [p |-> [k |-> "var", c |-> "Circle", ps |-> <<PB("r")>>], e |-> GenE(TInt, Append(env, [n |-> "r", ty |-> TInt, mut |-> FALSE]), fns, d - 1)],
                    [p |-> [k |-> "var", c |-> "Rect", ps |-> <<PB("w"), [k |-> "wild"]>>], e |-> GenE(TInt, Append(env, [n |-> "w", ty |-> TInt, mut |-> FALSE]), fns, d - 1)],
                    [p |-> [k |-> "wild"], e |-> GenE(TInt, env, fns, d - 1)] >>]
           ELSE IF c = 10 /\ VarsOf(env, TOpt(TInt)) # {} THEN
                [k |-> "match", s |-> V(env[Pick(VarsOf(env, TOpt(TInt)))].n), arms |-> <<
                    [p |-> [k |-> "var", c |-> "some", ps |-> <<PB("sv")>>], e |-> GenE(TInt, Append(env, [n |-> "sv", ty |-> TInt, mut |-> FALSE]), fns, d - 1)],
                    [p |-> [k |-> "var", c |-> "none", ps |-> <<>>], e |-> GenE(TInt, env, fns, d - 1)] >>]
           ELSE IF c = 11 /\ LamsRet(env, TInt) # {} THEN
                LET l == env[Pick(LamsRet(env, TInt))] IN Call(l.n, GenArgs(l.ty.ps, env, fns, d - 1, 1))
           ELSE IF c = 12 /\ MutOf(env, TInt) # {} /\ Chance(1, 2) THEN
                \* an operand with a side effect on a variable: makes the evaluation order of operands observable
                [k |-> "blk", ss |-> <<Assign(V(env[Pick(MutOf(env, TInt))].n), Pick({"=", "+=", "*="}), GenE(TInt, env, fns, d - 1)),
                                       ExprS(GenE(TInt, env, fns, d - 1))>>]
           ELSE IF c = 12 THEN
                [k |-> "blk", ss |-> <<Let("bk", GenE(TInt, env, fns, d - 1)),
                                       ExprS(Bin(Pick({"+", "*", "-"}), V("bk"), GenE(TInt, env, fns, d - 1)))>>]
           ELSE [k |-> "neg", e |-> GenE(TInt, env, fns, d - 1)])
     [] ty.k = "bool" ->
          (IF c <= 4 THEN Bin(Pick({"<", "<=", "==", "!=", ">", ">="}), GenE(TInt, env, fns, d - 1), GenE(TInt, env, fns, d - 1))
           ELSE IF c <= 7 THEN Bin(Pick({"and", "or"}), GenE(TBool, env, fns, d - 1), GenE(TBool, env, fns, d - 1))
           ELSE IF c = 8 THEN Bin(Pick({"==", "!="}), GenE(TBool, env, fns, d - 1), GenE(TBool, env, fns, d - 1))
           ELSE IF c = 9 THEN Bin(Pick({"==", "!="}), GenE(TStr, env, fns, d - 1), GenE(TStr, env, fns, d - 1))
           ELSE IF c = 10 THEN Bin(Pick({"<", "<=", "==", ">"}), GenE(TFlt, env, fns, d - 1), GenE(TFlt, env, fns, d - 1))
           ELSE IF c = 11 /\ FnsRet(fns, TBool) # {} THEN
                LET f == fns[Pick(FnsRet(fns, TBool))] IN Call(f.n, GenArgs(f.ps, env, fns, d - 1, 1))
           ELSE [k |-> "not", e |-> GenE(TBool, env, fns, d - 1)])
     [] ty.k = "str" ->
          (IF c <= 8 THEN Bin("..", GenE(IF Chance(1, 2) THEN TStr ELSE Pick(Printable), env, fns, d - 1),
                                    GenE(Pick(Printable), env, fns, d - 1))
           ELSE [k |-> "ife", c |-> GenE(TBool, env, fns, d - 1), t |-> GenE(TStr, env, fns, d - 1), e |-> GenE(TStr, env, fns, d - 1)])
     [] ty.k = "flt" ->
          (IF c <= 8 THEN Bin(Pick({"+", "-", "*"}), GenE(TFlt, env, fns, d - 1), GenE(TFlt, env, fns, d - 1))
           ELSE IF c = 9 THEN Bin("/", GenE(TFlt, env, fns, d - 1), F(Pick({1, 2, 4, -2, 1}), Pick({0, 0, 1})))
           ELSE [k |-> "neg", e |-> GenE(TFlt, env, fns, d - 1)])
     [] ty.k = "arr" -> [k |-> "arr", es |-> [i \in 1..Pick(1..3) |-> GenE(ty.of, env, fns, d - 1)]]
     [] ty.k = "tup" -> [k |-> "tup", es |-> [i \in 1..Len(ty.ts) |-> GenE(ty.ts[i], env, fns, d - 1)]]
     [] ty.k = "opt" -> (IF c <= 3 /\ FnsRet(fns, ty) # {} THEN
                              LET f == fns[Pick(FnsRet(fns, ty))] IN Call(f.n, GenArgs(f.ps, env, fns, d - 1, 1))
                         ELSE Some(GenE(ty.of, env, fns, d - 1)))
     [] ty.k = "struct" -> [k |-> "new", n |-> "Point", args |-> <<Arg(GenE(TInt, env, fns, d - 1)), Arg(GenE(TInt, env, fns, d - 1))>>]
     [] ty.k = "enum" -> LET c2 == Pick({"Circle", "Rect", "Dot"}) IN
                         [k |-> "variant", q |-> "Shape", c |-> c2,
                          es |-> IF c2 = "Circle" THEN <<GenE(TInt, env, fns, d - 1)>>
                                 ELSE IF c2 = "Rect" THEN <<GenE(TInt, env, fns, d - 1), GenE(TInt, env, fns, d - 1)>> ELSE <<>>]
     [] ty.k = "nil" -> [k |-> "nil"]

\* ---- statements.  g = [env, ctr]; ctx = [loop |-> BOOLEAN, ret |-> type or TNil-with-flag, fn |-> BOOLEAN, d |-> nesting budget]
\* Result [ss, env, ctr]
Name(p, ctr) == p \o ToString(ctr)
ED == 3      \* expression depth

RECURSIVE GenSS(_, _, _, _, _), Gen1(_, _, _, _)
Gen1(env, ctr, fns, ctx) ==
  LET c == Pick(1..24) IN
  IF c <= 5 THEN
     LET ty == Pick(ValueTypes)  mut == Chance(1, 2)  n == Name("v", ctr)
         needAnn == ty.k = "opt"
         e == IF needAnn /\ Chance(1, 3) THEN None ELSE GenE(ty, env, fns, ED)
     IN [ss |-> <<[k |-> IF mut THEN "var" ELSE "let", p |-> PB(n), e |-> e, ty |-> IF needAnn THEN TyStr(ty) ELSE ""]>>,
         env |-> Append(env, [n |-> n, ty |-> ty, mut |-> mut]), ctr |-> ctr + 1]
  ELSE IF c <= 7 /\ (\E t \in {TInt, TBool, TStr, TFlt} : MutOf(env, t) # {}) THEN
     LET ty == Pick({t \in {TInt, TBool, TStr, TFlt} : MutOf(env, t) # {}})
         x == env[Pick(MutOf(env, ty))].n
         op == IF ty = TInt THEN Pick({"=", "+=", "-=", "*=", "/=", "%="}) ELSE IF ty = TFlt THEN Pick({"=", "+=", "-=", "*="}) ELSE "="
     IN [ss |-> <<Assign(V(x), op, GenE(ty, env, fns, ED))>>, env |-> env, ctr |-> ctr]
  ELSE IF c <= 10 THEN
     [ss |-> <<PrintS(GenE(Pick(Printable), env, fns, ED))>>, env |-> env, ctr |-> ctr]
  ELSE IF c = 11 /\ ctx.d > 0 THEN
     LET t == GenSS(Pick(1..3), env, ctr, fns, [ctx EXCEPT !.d = @ - 1])
         e == GenSS(Pick(0..2), env, t.ctr, fns, [ctx EXCEPT !.d = @ - 1])
     IN [ss |-> <<If(GenE(TBool, env, fns, ED), t.ss, e.ss)>>, env |-> env, ctr |-> e.ctr]
  ELSE IF c = 12 /\ ctx.d > 0 THEN       \* counter-driven while loop
     LET cn == Name("c", ctr)
         env1 == Append(env, [n |-> cn, ty |-> TInt, mut |-> FALSE])   \* body must not assign the counter
         b == GenSS(Pick(1..3), env1, ctr + 1, fns, [ctx EXCEPT !.d = @ - 1, !.loop = TRUE])
     IN [ss |-> <<Var(cn, I(0)),
                  [k |-> "while", c |-> Bin("<", V(cn), I(Pick(1..4))),
                   body |-> <<Assign(V(cn), "+=", I(1))>> \o b.ss]>>,
         env |-> env1, ctr |-> b.ctr]
  ELSE IF c = 13 /\ ctx.d > 0 THEN       \* for over a count, a range or an array
     LET xn == Name("i", ctr)
         kind == Pick({"count", "range", "array"})
         it == IF kind = "count" THEN [k |-> "count", e |-> I(Pick(0..4))]
               ELSE IF kind = "range" THEN [k |-> "range", a |-> I(Pick(0..3)), b |-> I(Pick(2..6))]
               ELSE [k |-> "array", e |-> GenE(TArr(TInt), env, fns, 1)]
         env1 == Append(env, [n |-> xn, ty |-> TInt, mut |-> FALSE])
         b == GenSS(Pick(1..3), env1, ctr + 1, fns, [ctx EXCEPT !.d = @ - 1, !.loop = TRUE])
     IN [ss |-> <<[k |-> "for", p |-> PB(xn), it |-> it, body |-> b.ss]>>, env |-> env, ctr |-> b.ctr]
  ELSE IF c = 14 /\ ctx.loop THEN
     [ss |-> <<If(GenE(TBool, env, fns, 2), <<[k |-> Pick({"break", "continue"})]>>, <<>>)>>, env |-> env, ctr |-> ctr]
  ELSE IF c = 15 /\ VarsOf(env, TArr(TInt)) # {} THEN
     LET a == V(env[Pick(VarsOf(env, TArr(TInt)))].n)  w == Pick(1..4) IN
     [ss |-> IF w = 1 THEN <<ExprS(MCall(a, "push", <<GenE(TInt, env, fns, 2)>>))>>
             \* the index of an assignment target may be any effect-free expression (also a block with its own `let`)
             ELSE IF w = 2 THEN <<Assign([k |-> "idx", a |-> a, i |-> GenE(TInt, Frozen(env), fns, IF Chance(1, 3) THEN 2 ELSE 0)],
                                         Pick({"=", "+="}), GenE(TInt, Frozen(env), fns, 2))>>
             ELSE IF w = 3 THEN <<If(Bin(">", MCall(a, "len", <<>>), I(0)), <<Let(Name("pv", ctr), MCall(a, "pop", <<>>))>>, <<>>)>>
             ELSE <<PrintS(a)>>,
      env |-> env, ctr |-> ctr]
  ELSE IF c = 16 /\ VarsOf(env, TPoint) # {} THEN
     LET p == V(env[Pick(VarsOf(env, TPoint))].n) IN
     [ss |-> <<Assign([k |-> "fld", o |-> p, f |-> Pick({"x", "y"})], Pick({"=", "+=", "*="}), GenE(TInt, Frozen(env), fns, 2))>>, env |-> env, ctr |-> ctr]
  ELSE IF c = 17 /\ VarsOf(env, TShape) # {} THEN     \* match used as a statement, arms are blocks
     LET s == V(env[Pick(VarsOf(env, TShape))].n) IN
     [ss |-> <<ExprS([k |-> "match", s |-> s, arms |-> <<
                 [p |-> [k |-> "var", c |-> "Circle", ps |-> <<[k |-> "lit", v |-> IntV(Pick(0..3))]>>], e |-> [k |-> "blk", ss |-> <<PrintS(S("unit circle"))>>]],
                 [p |-> [k |-> "or", l |-> [k |-> "var", c |-> "Circle", ps |-> <<PB("m")>>], r |-> [k |-> "var", c |-> "Rect", ps |-> <<PB("m"), [k |-> "wild"]>>]],
                  e |-> [k |-> "blk", ss |-> <<PrintS(GenE(TInt, Append(env, [n |-> "m", ty |-> TInt, mut |-> FALSE]), fns, 2))>>]],
                 [p |-> [k |-> "var", c |-> "Dot", ps |-> <<>>], e |-> [k |-> "blk", ss |-> <<PrintS(S("dot"))>>]] >>])>>,
      env |-> env, ctr |-> ctr]
  ELSE IF c = 18 /\ ctx.fn /\ ctx.ret.k # "nil" THEN    \* guarded early return
     [ss |-> <<If(GenE(TBool, env, fns, 2), <<[k |-> "ret", e |-> GenE(ctx.ret, env, fns, 2)]>>, <<>>)>>, env |-> env, ctr |-> ctr]
  ELSE IF c = 19 /\ (\E t \in {TTup(<<TInt, TBool>>), TTup(<<TInt, TStr>>)} : VarsOf(env, t) # {}) THEN   \* let destructuring
     LET ty == Pick({t \in {TTup(<<TInt, TBool>>), TTup(<<TInt, TStr>>)} : VarsOf(env, t) # {}})
         a == Name("a", ctr)  b == Name("b", ctr)
     IN [ss |-> <<[k |-> "let", p |-> [k |-> "tup", ps |-> <<PB(a), PB(b)>>], e |-> V(env[Pick(VarsOf(env, ty))].n), ty |-> ""]>>,
         env |-> env \o <<[n |-> a, ty |-> ty.ts[1], mut |-> FALSE], [n |-> b, ty |-> ty.ts[2], mut |-> FALSE]>>, ctr |-> ctr + 1]
  ELSE IF c = 20 THEN                                    \* lambda over ints capturing the environment by value
     LET ln == Name("lam", ctr)
         body == GenE(TInt, Append(Frozen(env), [n |-> "q", ty |-> TInt, mut |-> FALSE]), fns, 2)
     IN [ss |-> <<Let(ln, [k |-> "lam", ps |-> <<"q">>, ptys |-> <<"int">>, body |-> body])>>,
         env |-> Append(env, [n |-> ln, ty |-> TFn(<<TInt>>, TInt), mut |-> FALSE]), ctr |-> ctr + 1]
  ELSE IF c = 21 /\ FnsRet(fns, TNil) # {} THEN
     LET f == fns[Pick(FnsRet(fns, TNil))] IN
     [ss |-> <<ExprS(Call(f.n, GenArgs(f.ps, env, fns, 2, 1)))>>, env |-> env, ctr |-> ctr]
  ELSE IF c = 22 /\ VarsOf(env, TPoint) # {} THEN        \* struct destructuring
     LET a == Name("px", ctr)  b == Name("py", ctr) IN
     [ss |-> <<[k |-> "let", p |-> [k |-> "struct", n |-> "Point", fs |-> IF Chance(1, 2) THEN <<>> ELSE <<"y", "x">>, ps |-> <<PB(a), PB(b)>>],
                e |-> V(env[Pick(VarsOf(env, TPoint))].n), ty |-> ""]>>,
      env |-> env \o <<[n |-> a, ty |-> TInt, mut |-> FALSE], [n |-> b, ty |-> TInt, mut |-> FALSE]>>, ctr |-> ctr + 1]
  ELSE IF c = 23 /\ VarsOf(env, TOpt(TInt)) # {} /\ ~ctx.fn THEN   \* unwrap in the main program: may panic
     [ss |-> <<PrintS([k |-> "unwrap", e |-> V(env[Pick(VarsOf(env, TOpt(TInt)))].n)])>>, env |-> env, ctr |-> ctr]
  ELSE [ss |-> <<PrintS(GenE(Pick(Printable), env, fns, ED))>>, env |-> env, ctr |-> ctr]

GenSS(n, env, ctr, fns, ctx) ==
  IF n = 0 THEN [ss |-> <<>>, env |-> env, ctr |-> ctr]
  ELSE LET h == Gen1(env, ctr, fns, ctx)
           r == GenSS(n - 1, h.env, h.ctr, fns, ctx)
       IN [ss |-> h.ss \o r.ss, env |-> r.env, ctr |-> r.ctr]

\* ---- functions: signatures first, then bodies that may call earlier functions only
SigPool == << [ps |-> <<TInt>>, r |-> TInt], [ps |-> <<TInt, TInt>>, r |-> TInt], [ps |-> <<TInt>>, r |-> TBool],
              [ps |-> <<TArr(TInt)>>, r |-> TInt], [ps |-> <<TInt>>, r |-> TNil], [ps |-> <<TInt>>, r |-> TOpt(TInt)],
              [ps |-> <<TBool, TInt>>, r |-> TInt], [ps |-> <<TPoint>>, r |-> TInt] >>

RECURSIVE GenFns(_, _, _, _)
\* returns [defs, sigs, ctr]
GenFns(k, sigs, ctr, nstmts) ==
  IF k = 0 THEN [defs |-> <<>>, sigs |-> sigs, ctr |-> ctr]
  ELSE LET sg == SigPool[Pick(1..Len(SigPool))]
           name == Name("f", ctr)
           pnames == [i \in 1..Len(sg.ps) |-> Name("p", ctr) \o "_" \o ToString(i)]
           env == [i \in 1..Len(sg.ps) |-> [n |-> pnames[i], ty |-> sg.ps[i], mut |-> FALSE]]
           b == GenSS(Pick(1..nstmts), env, ctr + 1, sigs, [loop |-> FALSE, ret |-> sg.r, fn |-> TRUE, d |-> 2])
           last == IF sg.r.k = "nil" THEN <<>>
                   ELSE IF sg.r.k = "opt" /\ Chance(1, 3) THEN <<ExprS(None)>>
                   ELSE <<ExprS(GenE(sg.r, b.env, sigs, 2))>>
           def == [n |-> name, ps |-> [i \in 1..Len(sg.ps) |-> [n |-> pnames[i], ty |-> TyStr(sg.ps[i]), d |-> NoD]],
                   ret |-> IF sg.r.k = "nil" THEN "" ELSE TyStr(sg.r), body |-> b.ss \o last]
           rest == GenFns(k - 1, Append(sigs, [n |-> name, ps |-> sg.ps, r |-> sg.r]), b.ctr, nstmts)
       IN [defs |-> <<def>> \o rest.defs, sigs |-> rest.sigs, ctr |-> rest.ctr]

\* a whole single-file program: NF functions and NS main statements
GenProg(NF, NS) ==
  LET fs == GenFns(NF, <<>>, 1, 4)
      m == GenSS(NS, <<>>, fs.ctr, fs.sigs, [loop |-> FALSE, ret |-> TNil, fn |-> FALSE, d |-> 2])
      \* half of the programs end in a scalar expression statement: its value is the result the runtime reports
      last == IF Chance(1, 2) THEN <<ExprS(GenE(IF Chance(1, 2) THEN TInt ELSE TBool, m.env, fs.sigs, 2))>> ELSE <<>>
      ord == Pick({"decls-first", "decls-first", "fns-last", "main-first"})
  IN [files |-> <<[name |-> "main.abra", uses |-> <<>>, types |-> StdTypes, fns |-> fs.defs, main |-> m.ss \o last, order |-> ord]>>]
=============================================================================
