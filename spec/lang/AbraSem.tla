----------------------------- MODULE AbraSem -----------------------------
(***************************************************************************)
(* Reference semantics of the Abra core language, transcribed from the     *)
(* language reference (book/src/language_reference/*.md): a big-step       *)
(* evaluator over a JSON-like AST.  TLC evaluates it; the result is the    *)
(* expected observation {printed output, final value, runtime error kind,  *)
(* location and traceback} that the conformance harness compares with the  *)
(* real compiler + VM.                                                     *)
(*                                                                         *)
(* Model restrictions (cases leaving them are *discarded*, never compared):*)
(*   - integers are kept in |n| < 2^30 (TLC ints are 32 bit): signal "oom" *)
(*   - floats are exact dyadic rationals n / 2^e with e <= MaxFltExp       *)
(*   - loops and recursion are bounded by fuel/depth: signal "oom"         *)
(***************************************************************************)
EXTENDS Naturals, Integers, Sequences, FiniteSets, TLC

LIM == 1073741824
MaxFltExp == 12
MaxDepth == 40

\* ---------------------------------------------------------------- values
IntV(n)  == [t |-> "int", v |-> n]
BoolV(b) == [t |-> "bool", v |-> b]
StrV(s)  == [t |-> "str", v |-> s]
NilV     == [t |-> "nil"]
TupV(es) == [t |-> "tup", es |-> es]
EnumV(c, es) == [t |-> "enum", c |-> c, es |-> es]      \* user variants, some/none/ok/err
RefV(a)  == [t |-> "ref", a |-> a]                       \* arrays and structs live in the heap
FnV(n)   == [t |-> "fn", n |-> n]

RECURSIVE Pow2(_)
Pow2(k) == IF k = 0 THEN 1 ELSE 2 * Pow2(k - 1)
Abs(x) == IF x < 0 THEN -x ELSE x
InR(x) == x > -LIM /\ x < LIM

RECURSIVE NormF(_, _)
NormF(n, e) == IF e > 0 /\ n % 2 = 0 THEN NormF(n \div 2, e - 1) ELSE [t |-> "flt", n |-> n, e |-> e]
FltV(n, e) == NormF(n, e)

\* ---------------------------------------------------------------- results
Ok(st, v)   == [st |-> st, v |-> v, sig |-> "ok"]
Sig(st, s)  == [st |-> st, v |-> NilV, sig |-> s]
Oom(st)     == Sig(st, "oom")
Reverse(s)  == [i \in 1..Len(s) |-> s[Len(s) + 1 - i]]
Fail(st, kind, msg, ln) ==
  Sig([st EXCEPT !.err = [kind |-> kind, msg |-> msg,
                          loc |-> [file |-> st.cur.file, line |-> ln, fn |-> st.cur.fn],
                          trace |-> Reverse(st.calls)]], "err")

\* ---------------------------------------------------------------- environment
RECURSIVE FindLast(_, _, _)
FindLast(env, n, i) == IF i = 0 THEN 0 ELSE IF env[i].n = n THEN i ELSE FindLast(env, n, i - 1)
Bound(env, n) == FindLast(env, n, Len(env)) # 0
Lookup(env, n) == env[FindLast(env, n, Len(env))].v
Bind(env, n, v) == Append(env, [n |-> n, v |-> v])
Update(env, n, v) == [env EXCEPT ![FindLast(env, n, Len(env))].v = v]

RECURSIVE FindDef(_, _, _)
FindDef(defs, n, i) == IF i > Len(defs) THEN 0 ELSE IF defs[i].n = n THEN i ELSE FindDef(defs, n, i + 1)
HasFn(prog, n) == FindDef(prog.fns, n, 1) # 0
FnDef(prog, n) == prog.fns[FindDef(prog.fns, n, 1)]
StructDef(prog, n) == prog.structs[FindDef(prog.structs, n, 1)]
RECURSIVE IndexOf(_, _, _)
IndexOf(s, x, i) == IF i > Len(s) THEN 0 ELSE IF s[i] = x THEN i ELSE IndexOf(s, x, i + 1)

LnOf(s, dflt) == IF "ln" \in DOMAIN s THEN s.ln ELSE dflt

\* ---------------------------------------------------------------- text rendering of values (ToString)
RECURSIVE Digits(_, _)
Digits(n, k) == IF k = 0 THEN "" ELSE Digits(n \div 10, k - 1) \o ToString(n % 10)
RECURSIVE TrimZeros(_)
TrimZeros(s) == IF Len(s) > 0 /\ SubSeq(s, Len(s), Len(s)) = "0" THEN TrimZeros(SubSeq(s, 1, Len(s) - 1)) ELSE s
RECURSIVE Pow5(_)
Pow5(k) == IF k = 0 THEN 1 ELSE 5 * Pow5(k - 1)
\* exact decimal expansion of n / 2^e: the e fraction digits one by one (remainder * 10 div 2^e), so that no
\* intermediate exceeds 10 * 2^e (the closed form fraction * 5^e overflows TLC's 32-bit integers from e = 10 on)
RECURSIVE FracDigits(_, _, _)
FracDigits(r, e, k) == IF k = 0 THEN "" ELSE ToString((r * 10) \div Pow2(e)) \o FracDigits((r * 10) % Pow2(e), e, k - 1)
FltDigits(n, e) ==
  LET a == Abs(n)
      ip == a \div Pow2(e)
      fs == TrimZeros(FracDigits(a % Pow2(e), e, e))
  IN [neg |-> n < 0, ip |-> ToString(ip), fs |-> fs]
ShowFlt(n, e) == LET d == FltDigits(n, e) IN
  (IF d.neg THEN "-" ELSE "") \o d.ip \o (IF d.fs = "" THEN "" ELSE "." \o d.fs)
\* spelling as a literal: digits "." digits
LitFlt(n, e) == LET d == FltDigits(n, e) IN
  (IF d.neg THEN "-" ELSE "") \o d.ip \o "." \o (IF d.fs = "" THEN "0" ELSE d.fs)

RECURSIVE Show(_, _), ShowSeq(_, _, _)
Show(v, heap) ==
  CASE v.t = "int"  -> ToString(v.v)
    [] v.t = "bool" -> IF v.v THEN "true" ELSE "false"
    [] v.t = "str"  -> v.v
    [] v.t = "nil"  -> "nil"
    [] v.t = "flt"  -> ShowFlt(v.n, v.e)
    [] v.t = "tup"  -> "(" \o ShowSeq(v.es, heap, ", ") \o ")"
    [] v.t = "enum" -> IF v.es = <<>> THEN v.c ELSE v.c \o "(" \o ShowSeq(v.es, heap, ", ") \o ")"
    [] v.t = "ref"  -> LET o == heap[v.a] IN
                       IF o.k = "arr" THEN (IF o.es = <<>> THEN "[  ]" ELSE "[ " \o ShowSeq(o.es, heap, ", ") \o " ]")
                       ELSE "<struct>"
ShowSeq(es, heap, sep) ==
  IF es = <<>> THEN "" ELSE IF Len(es) = 1 THEN Show(es[1], heap)
  ELSE Show(es[1], heap) \o sep \o ShowSeq(Tail(es), heap, sep)

\* ---------------------------------------------------------------- equality and order (Equal / Ord of the prelude)
FltCmp(a, b) ==   \* sign of a - b, exact
  LET E == IF a.e > b.e THEN a.e ELSE b.e
      x == a.n * Pow2(E - a.e)
      y == b.n * Pow2(E - b.e)
  IN IF x < y THEN -1 ELSE IF x > y THEN 1 ELSE 0

RECURSIVE ValEq(_, _, _), SeqEq(_, _, _)
ValEq(a, b, heap) ==
  CASE a.t = "int"  -> a.v = b.v
    [] a.t = "bool" -> a.v = b.v
    [] a.t = "str"  -> a.v = b.v
    [] a.t = "nil"  -> TRUE
    [] a.t = "flt"  -> FltCmp(a, b) = 0
    [] a.t = "tup"  -> SeqEq(a.es, b.es, heap)
    [] a.t = "enum" -> a.c = b.c /\ SeqEq(a.es, b.es, heap)
    [] a.t = "ref"  -> LET x == heap[a.a] y == heap[b.a] IN
                       IF x.k = "arr" THEN Len(x.es) = Len(y.es) /\ SeqEq(x.es, y.es, heap)
                       ELSE a.a = b.a
SeqEq(s, t, heap) == IF s = <<>> THEN TRUE ELSE ValEq(s[1], t[1], heap) /\ SeqEq(Tail(s), Tail(t), heap)

\* ---------------------------------------------------------------- arithmetic
TruncDiv(a, b) == LET q == Abs(a) \div Abs(b) IN IF (a < 0) # (b < 0) THEN -q ELSE q
EuclidMod(a, b) == LET m == Abs(b) IN ((a % m) + m) % m
RECURSIVE IPow(_, _)
IPow(a, b) == IF b = 0 THEN 1 ELSE a * IPow(a, b - 1)
\* |a|^b < LIM ?  (checked without overflowing 32 bits)
RECURSIVE PowFits(_, _, _)
PowFits(a, b, acc) == IF b = 0 THEN TRUE
                      ELSE IF a # 0 /\ acc > (LIM - 1) \div a THEN FALSE
                      ELSE PowFits(a, b - 1, acc * a)

IntBin(op, a, b, st, ln) ==
  CASE op = "+" -> IF InR(a + b) THEN Ok(st, IntV(a + b)) ELSE Oom(st)
    [] op = "-" -> IF InR(a - b) THEN Ok(st, IntV(a - b)) ELSE Oom(st)
    [] op = "*" -> IF a = 0 \/ b = 0 THEN Ok(st, IntV(0))
                   ELSE IF Abs(a) <= (LIM - 1) \div Abs(b) THEN Ok(st, IntV(a * b)) ELSE Oom(st)
    [] op = "/" -> IF b = 0 THEN Fail(st, "divzero", "", ln) ELSE Ok(st, IntV(TruncDiv(a, b)))
    [] op = "%" -> IF b = 0 THEN Fail(st, "divzero", "", ln) ELSE Ok(st, IntV(EuclidMod(a, b)))
    [] op = "^" -> IF b < 0 \/ b > 40 THEN Oom(st)
                   ELSE IF PowFits(Abs(a), b, 1) THEN Ok(st, IntV(IPow(a, b))) ELSE Oom(st)
    [] op = "<"  -> Ok(st, BoolV(a < b))
    [] op = "<=" -> Ok(st, BoolV(a <= b))
    [] op = ">"  -> Ok(st, BoolV(a > b))
    [] op = ">=" -> Ok(st, BoolV(a >= b))

FltOk(n, e, st) == IF InR(n) /\ e <= MaxFltExp THEN Ok(st, FltV(n, e)) ELSE
                   LET f == NormF(n, e) IN IF InR(f.n) /\ f.e <= MaxFltExp THEN Ok(st, f) ELSE Oom(st)
FltBin(op, a, b, st, ln) ==
  LET E == IF a.e > b.e THEN a.e ELSE b.e IN
  CASE op \in {"+", "-"} ->
         IF E > MaxFltExp \/ Abs(a.n) > (LIM - 1) \div Pow2(E - a.e) \/ Abs(b.n) > (LIM - 1) \div Pow2(E - b.e) THEN Oom(st) ELSE
         LET x == a.n * Pow2(E - a.e)  y == b.n * Pow2(E - b.e) IN
         FltOk(IF op = "+" THEN x + y ELSE x - y, E, st)
    [] op = "*" -> IF a.n = 0 \/ b.n = 0 THEN (IF a.n < 0 \/ b.n < 0 THEN Oom(st) ELSE Ok(st, FltV(0, 0)))   \* 0 * negative = -0
                   ELSE IF Abs(a.n) <= (LIM - 1) \div Abs(b.n) /\ a.e + b.e <= 2 * MaxFltExp
                        THEN FltOk(a.n * b.n, a.e + b.e, st) ELSE Oom(st)
    [] op = "/" -> IF b.n = 0 THEN Fail(st, "divzero", "", ln)
                   ELSE IF a.n = 0 /\ b.n < 0 THEN Oom(st)        \* -0
                   ELSE IF a.n % Abs(b.n) # 0 THEN Oom(st)        \* inexact quotient: outside the model
                   ELSE LET q == (a.n \div Abs(b.n)) * (IF b.n < 0 THEN -1 ELSE 1)   \* a.n / b.n exactly
                        IN \* (q / 2^a.e) * 2^b.e
                           IF b.e >= a.e THEN (IF b.e - a.e > 20 \/ Abs(q) > (LIM - 1) \div Pow2(b.e - a.e) THEN Oom(st)
                                               ELSE FltOk(q * Pow2(b.e - a.e), 0, st))
                           ELSE FltOk(q, a.e - b.e, st)
    [] op = "<"  -> Ok(st, BoolV(FltCmp(a, b) < 0))
    [] op = "<=" -> Ok(st, BoolV(FltCmp(a, b) <= 0))
    [] op = ">"  -> Ok(st, BoolV(FltCmp(a, b) > 0))
    [] op = ">=" -> Ok(st, BoolV(FltCmp(a, b) >= 0))
    [] op = "^" -> Oom(st)

BinOp(op, l, r, st, ln) ==
  CASE op = "==" -> Ok(st, BoolV(ValEq(l, r, st.heap)))
    [] op = "!=" -> Ok(st, BoolV(~ValEq(l, r, st.heap)))
    [] op = ".." -> Ok(st, StrV(Show(l, st.heap) \o Show(r, st.heap)))
    [] OTHER -> IF l.t = "int" THEN IntBin(op, l.v, r.v, st, ln)
                ELSE IF l.t = "flt" THEN FltBin(op, l, r, st, ln)
                ELSE Oom(st)        \* ordering of strings/tuples/bools is specified in Laws/Str, not here

\* ---------------------------------------------------------------- patterns
\* Match(v, p, heap) = [ok |-> BOOLEAN, bs |-> sequence of bindings [n, v]]
RECURSIVE Match(_, _, _, _), MatchSeq(_, _, _, _)
NoMatch == [ok |-> FALSE, bs |-> <<>>]
Match(v, p, heap, prog) ==
  CASE p.k = "wild" -> [ok |-> TRUE, bs |-> <<>>]
    [] p.k = "bind" -> [ok |-> TRUE, bs |-> <<[n |-> p.n, v |-> v]>>]
    [] p.k = "lit"  -> [ok |-> ValEq(v, p.v, heap), bs |-> <<>>]
    [] p.k = "tup"  -> MatchSeq(v.es, p.ps, heap, prog)
    [] p.k = "var"  -> IF v.c = p.c THEN MatchSeq(v.es, p.ps, heap, prog) ELSE NoMatch
    [] p.k = "struct" -> \* positional (fs = <<>>) or named (fs = field names, in pattern order)
         LET o == heap[v.a]
             names == StructDef(prog, p.n).fs
             vals == IF p.fs = <<>> THEN o.fs
                     ELSE [i \in 1..Len(p.fs) |-> o.fs[IndexOf(names, p.fs[i], 1)]]
         IN MatchSeq(vals, p.ps, heap, prog)
    [] p.k = "or"   -> LET l == Match(v, p.l, heap, prog) IN IF l.ok THEN l ELSE Match(v, p.r, heap, prog)
MatchSeq(vs, ps, heap, prog) ==
  IF ps = <<>> THEN [ok |-> TRUE, bs |-> <<>>]
  ELSE LET h == Match(vs[1], ps[1], heap, prog) IN
       IF ~h.ok THEN NoMatch
       ELSE LET r == MatchSeq(Tail(vs), Tail(ps), heap, prog) IN
            IF ~r.ok THEN NoMatch ELSE [ok |-> TRUE, bs |-> h.bs \o r.bs]
BindAll(env, bs) == env \o bs

\* ---------------------------------------------------------------- evaluator
RECURSIVE EvalE(_, _, _), EvalArgs(_, _, _, _), ExecS(_, _, _), ExecSS(_, _, _), ExecBlock(_, _, _),
          WhileLoop(_, _, _), ForLoop(_, _, _, _, _), CallFn(_, _, _, _), CallClo(_, _, _, _),
          CallVal(_, _, _, _), FirstArm(_, _, _, _, _), Method(_, _, _, _, _), ArgOrder(_, _, _, _, _)

\* evaluate a sequence of expressions left to right; result v is a tuple value holding the values
EvalArgs(es, st, ln, acc) ==
  IF es = <<>> THEN Ok(st, TupV(acc))
  ELSE LET r == EvalE(es[1], st, ln) IN
       IF r.sig # "ok" THEN r ELSE EvalArgs(Tail(es), r.st, ln, Append(acc, r.v))

\* positional + named arguments and defaults -> argument expressions in parameter order
\* args: sequence of [n |-> "" | name, e |-> expr];  ps: sequence of [n |-> name, d |-> default expr or NilE]
ArgOrder(ps, args, i, npos, acc) ==
  IF i > Len(ps) THEN acc
  ELSE LET named == {j \in 1..Len(args) : args[j].n = ps[i].n}
           e == IF i <= npos THEN args[i].e
                ELSE IF named # {} THEN args[CHOOSE j \in named : TRUE].e
                ELSE ps[i].d
       IN ArgOrder(ps, args, i + 1, npos, Append(acc, e))
NPos(args) == Cardinality({j \in 1..Len(args) : args[j].n = ""})

Restore(r, st0) == [r EXCEPT !.st.env = st0.env, !.st.cur = st0.cur, !.st.calls = st0.calls, !.st.depth = st0.depth]

\* the outcome of running a function body: "ret" becomes the value; loop signals cannot escape
BodyResult(r, st0) ==
  LET q == Restore(r, st0) IN
  IF r.sig = "ret" THEN [q EXCEPT !.sig = "ok"] ELSE q

CallFn(f, argv, st, ln) ==
  IF st.depth >= MaxDepth THEN Oom(st) ELSE
  LET d == FnDef(st.prog, f)
      env1 == [i \in 1..Len(d.ps) |-> [n |-> d.ps[i].n, v |-> argv[i]]]
      st1 == [st EXCEPT !.env = env1, !.cur = [fn |-> d.n, file |-> d.file],
                        !.calls = Append(@, [file |-> st.cur.file, line |-> ln, fn |-> st.cur.fn]),
                        !.depth = @ + 1]
  IN BodyResult(ExecSS(d.body, st1, d.ln), st)

CallClo(c, argv, st, ln) ==
  IF st.depth >= MaxDepth THEN Oom(st) ELSE
  LET env1 == c.env \o [i \in 1..Len(c.ps) |-> [n |-> c.ps[i], v |-> argv[i]]]
      st1 == [st EXCEPT !.env = env1, !.cur = [fn |-> c.fname, file |-> c.file],
                        !.calls = Append(@, [file |-> st.cur.file, line |-> ln, fn |-> st.cur.fn]),
                        !.depth = @ + 1]
  IN BodyResult(EvalE(c.body, st1, c.ln), st)

CallVal(fv, argv, st, ln) == IF fv.t = "fn" THEN CallFn(fv.n, argv, st, ln) ELSE CallClo(fv, argv, st, ln)

FirstArm(v, arms, i, st, ln) ==
  IF i > Len(arms) THEN Fail(st, "nomatch", "", ln)      \* unreachable for accepted programs (C12)
  ELSE LET m == Match(v, arms[i].p, st.heap, st.prog) IN
       IF m.ok THEN LET n == Len(st.env)
                        r == EvalE(arms[i].e, [st EXCEPT !.env = BindAll(@, m.bs)], ln)
                    IN [r EXCEPT !.st.env = SubSeq(r.st.env, 1, n)]
       ELSE FirstArm(v, arms, i + 1, st, ln)

Alloc(st, o) == [st |-> [st EXCEPT !.heap = Append(@, o)], a |-> Len(st.heap) + 1]

\* built-in array methods documented in builtin_types.md / standard_library.md
Method(m, recv, argv, st, ln) ==
  LET o == st.heap[recv.a] IN
  CASE m = "str"  -> Ok(st, StrV(Show(recv, st.heap)))                \* ToString: the documented text of the value
    [] m = "len"  -> Ok(st, IntV(Len(o.es)))
    [] m = "push" -> Ok([st EXCEPT !.heap[recv.a].es = Append(@, argv[1])], NilV)
    [] m = "pop"  -> IF o.es = <<>> THEN Fail(st, "anyerr", "", ln)      \* C26: must be *a* runtime error
                     ELSE Ok([st EXCEPT !.heap[recv.a].es = SubSeq(@, 1, Len(@) - 1)], o.es[Len(o.es)])
    [] m = "is_empty" -> Ok(st, BoolV(o.es = <<>>))
    [] m = "clear" -> Ok([st EXCEPT !.heap[recv.a].es = <<>>], NilV)
    [] m = "contains" -> Ok(st, BoolV(\E i \in 1..Len(o.es) : ValEq(o.es[i], argv[1], st.heap)))

EvalE(e, st, ln) ==
  CASE e.k = "int"  -> Ok(st, IntV(e.v))
    [] e.k = "flt"  -> Ok(st, FltV(e.n, e.e))
    [] e.k = "bool" -> Ok(st, BoolV(e.v))
    [] e.k = "str"  -> Ok(st, StrV(e.v))
    [] e.k = "nil"  -> Ok(st, NilV)
    [] e.k = "var"  -> IF Bound(st.env, e.n) THEN Ok(st, Lookup(st.env, e.n)) ELSE Ok(st, FnV(e.n))
    [] e.k = "neg"  -> LET r == EvalE(e.e, st, ln) IN
                       IF r.sig # "ok" THEN r
                       ELSE IF r.v.t = "int" THEN Ok(r.st, IntV(-r.v.v))
                       ELSE IF r.v.n = 0 THEN Oom(r.st)            \* -0.0 is not a dyadic rational: see Flt.tla
                       ELSE Ok(r.st, FltV(-r.v.n, r.v.e))
    [] e.k = "not"  -> LET r == EvalE(e.e, st, ln) IN IF r.sig # "ok" THEN r ELSE Ok(r.st, BoolV(~r.v.v))
    [] e.k = "bin"  ->
         LET l == EvalE(e.l, st, ln) IN
         IF l.sig # "ok" THEN l
         ELSE IF e.op = "and" THEN (IF l.v.v THEN EvalE(e.r, l.st, ln) ELSE Ok(l.st, BoolV(FALSE)))
         ELSE IF e.op = "or"  THEN (IF l.v.v THEN Ok(l.st, BoolV(TRUE)) ELSE EvalE(e.r, l.st, ln))
         ELSE LET r == EvalE(e.r, l.st, ln) IN
              IF r.sig # "ok" THEN r ELSE BinOp(e.op, l.v, r.v, r.st, ln)
    [] e.k = "ife"  -> LET c == EvalE(e.c, st, ln) IN
                       IF c.sig # "ok" THEN c
                       ELSE IF c.v.v THEN EvalE(e.t, c.st, ln) ELSE EvalE(e.e, c.st, ln)
    [] e.k = "blk"  -> ExecBlock(e.ss, st, ln)
    [] e.k = "tup"  -> EvalArgs(e.es, st, ln, <<>>)
    [] e.k = "arr"  -> LET r == EvalArgs(e.es, st, ln, <<>>) IN
                       IF r.sig # "ok" THEN r
                       ELSE LET al == Alloc(r.st, [k |-> "arr", es |-> r.v.es]) IN Ok(al.st, RefV(al.a))
    [] e.k = "new"  -> \* struct construction, arguments positional/named/defaulted in field order
         LET d == StructDef(st.prog, e.n)
             ps == [i \in 1..Len(d.fs) |-> [n |-> d.fs[i], d |-> d.ds[i]]]
             r == EvalArgs(ArgOrder(ps, e.args, 1, NPos(e.args), <<>>), st, ln, <<>>) IN
         IF r.sig # "ok" THEN r
         ELSE LET al == Alloc(r.st, [k |-> "struct", n |-> e.n, fs |-> r.v.es]) IN Ok(al.st, RefV(al.a))
    [] e.k = "variant" -> LET r == EvalArgs(e.es, st, ln, <<>>) IN
                          IF r.sig # "ok" THEN r ELSE Ok(r.st, EnumV(e.c, r.v.es))
    [] e.k = "fld"  -> LET r == EvalE(e.o, st, ln) IN
                       IF r.sig # "ok" THEN r
                       ELSE LET o == r.st.heap[r.v.a] IN
                            Ok(r.st, o.fs[IndexOf(StructDef(st.prog, o.n).fs, e.f, 1)])
    [] e.k = "idx"  -> LET a == EvalE(e.a, st, ln) IN
                       IF a.sig # "ok" THEN a
                       ELSE LET i == EvalE(e.i, a.st, ln) IN
                            IF i.sig # "ok" THEN i
                            ELSE LET o == i.st.heap[a.v.a] IN
                                 IF i.v.v < 0 \/ i.v.v >= Len(o.es) THEN Fail(i.st, "oob", "", ln)
                                 ELSE Ok(i.st, o.es[i.v.v + 1])
    [] e.k = "call" -> \* named function (or a local holding a function value) with positional/named/default args
         IF Bound(st.env, e.f)
         THEN LET r == EvalArgs([i \in 1..Len(e.args) |-> e.args[i].e], st, ln, <<>>) IN
              IF r.sig # "ok" THEN r ELSE CallVal(Lookup(st.env, e.f), r.v.es, r.st, ln)
         ELSE LET d == FnDef(st.prog, e.f)
                  r == EvalArgs(ArgOrder(d.ps, e.args, 1, NPos(e.args), <<>>), st, ln, <<>>) IN
              IF r.sig # "ok" THEN r ELSE CallFn(e.f, r.v.es, r.st, ln)
    [] e.k = "callv" -> LET f == EvalE(e.f, st, ln) IN
                        IF f.sig # "ok" THEN f
                        ELSE LET r == EvalArgs(e.es, f.st, ln, <<>>) IN
                             IF r.sig # "ok" THEN r ELSE CallVal(f.v, r.v.es, r.st, ln)
    [] e.k = "lam"  -> Ok(st, [t |-> "clo", ps |-> e.ps, body |-> e.body, env |-> st.env,
                               fname |-> "<lambda>", file |-> st.cur.file, ln |-> ln])
    [] e.k = "mcall" -> LET o == EvalE(e.o, st, ln) IN
                        IF o.sig # "ok" THEN o
                        ELSE LET r == EvalArgs(e.es, o.st, ln, <<>>) IN
                             IF r.sig # "ok" THEN r ELSE Method(e.m, o.v, r.v.es, r.st, ln)
    [] e.k = "match" -> LET s == EvalE(e.s, st, ln) IN
                        IF s.sig # "ok" THEN s ELSE FirstArm(s.v, e.arms, 1, s.st, ln)
    [] e.k = "try"  -> \* e?  : payload of some/ok, otherwise return none / err(x) from the enclosing function
         LET r == EvalE(e.e, st, ln) IN
         IF r.sig # "ok" THEN r
         ELSE IF r.v.c \in {"some", "ok"} THEN Ok(r.st, r.v.es[1])
         ELSE [st |-> r.st, v |-> r.v, sig |-> "ret"]
    [] e.k = "unwrap" -> \* e!  : sugar for the prelude's Unwrap.unwrap, which panics inside the prelude
         LET r == EvalE(e.e, st, ln) IN
         IF r.sig # "ok" THEN r
         ELSE IF r.v.c \in {"some", "ok"} THEN Ok(r.st, r.v.es[1])
         ELSE LET st2 == [r.st EXCEPT !.calls = Append(@, [file |-> r.st.cur.file, line |-> ln, fn |-> r.st.cur.fn]),
                                      !.cur = [fn |-> "unwrap", file |-> "prelude.abra"]]
                  f == Fail(st2, "panic", IF r.v.c = "none" THEN "cannot unwrap option.none" ELSE "cannot unwrap result.err", 0)
              IN [f EXCEPT !.st.calls = r.st.calls, !.st.cur = r.st.cur]       \* line 0 = unspecified (prelude-internal)
    [] e.k = "panic" -> LET r == EvalE(e.e, st, ln) IN
                        IF r.sig # "ok" THEN r ELSE Fail(r.st, "panic", r.v.v, ln)
    [] OTHER -> Assert(FALSE, <<"EvalE: unknown expression", e>>)

\* a block has its own scope; its value is the value of a final expression statement
ExecBlock(ss, st, ln) ==
  LET n == Len(st.env)
      r == ExecSS(ss, st, ln)
  IN [r EXCEPT !.st.env = SubSeq(r.st.env, 1, IF Len(r.st.env) < n THEN Len(r.st.env) ELSE n)]

ExecSS(ss, st, ln) ==
  IF ss = <<>> THEN Ok(st, NilV)
  ELSE LET r == ExecS(ss[1], st, ln) IN
       IF r.sig # "ok" THEN r
       ELSE IF Len(ss) = 1 THEN r ELSE ExecSS(Tail(ss), r.st, ln)

WhileLoop(s, st, ln) ==
  IF st.fuel = 0 THEN Oom(st) ELSE
  LET c == EvalE(s.c, [st EXCEPT !.fuel = @ - 1], ln) IN
  IF c.sig # "ok" THEN c
  ELSE IF ~c.v.v THEN Ok(c.st, NilV)
  ELSE LET b == ExecBlock(s.body, c.st, ln) IN
       IF b.sig = "brk" THEN Ok(b.st, NilV)
       ELSE IF b.sig \in {"ok", "cont"} THEN WhileLoop(s, b.st, ln)
       ELSE b

\* items: the sequence of values iterated over (snapshot taken when the loop starts)
ForLoop(s, items, i, st, ln) ==
  IF i > Len(items) THEN Ok(st, NilV)
  ELSE IF st.fuel = 0 THEN Oom(st)
  ELSE LET m == Match(items[i], s.p, st.heap, st.prog)
           n == Len(st.env)
           b0 == ExecBlock(s.body, [st EXCEPT !.env = BindAll(@, m.bs), !.fuel = @ - 1], ln)
           b == [b0 EXCEPT !.st.env = SubSeq(b0.st.env, 1, IF Len(b0.st.env) < n THEN Len(b0.st.env) ELSE n)]
       IN IF b.sig = "brk" THEN Ok(b.st, NilV)
          ELSE IF b.sig \in {"ok", "cont"} THEN ForLoop(s, items, i + 1, b.st, ln)
          ELSE b

ExecS(s, st, ln0) ==
  LET ln == LnOf(s, ln0) IN
  CASE s.k \in {"let", "var"} ->       \* s.p is a pattern (a plain name is [k |-> "bind", n |-> ...])
         LET r == EvalE(s.e, st, ln) IN
         IF r.sig # "ok" THEN r
         ELSE LET m == Match(r.v, s.p, r.st.heap, st.prog) IN
              Ok([r.st EXCEPT !.env = BindAll(@, m.bs)], NilV)
    [] s.k = "assign" ->               \* s.op in {"=", "+=", "-=", "*=", "/=", "%="}; target kinds var / idx / fld
         LET cur(stx) == EvalE(s.tgt, stx, ln)
             rhs == IF s.op = "=" THEN EvalE(s.e, st, ln)
                    ELSE LET c == cur(st) IN
                         IF c.sig # "ok" THEN c
                         ELSE LET r == EvalE(s.e, c.st, ln) IN
                              IF r.sig # "ok" THEN r
                              ELSE BinOp(SubSeq(s.op, 1, 1), c.v, r.v, r.st, ln)
         IN IF rhs.sig # "ok" THEN rhs
            ELSE (CASE s.tgt.k = "var" -> Ok([rhs.st EXCEPT !.env = Update(@, s.tgt.n, rhs.v)], NilV)
                   [] s.tgt.k = "idx" ->
                        LET a == EvalE(s.tgt.a, rhs.st, ln) IN
                        IF a.sig # "ok" THEN a
                        ELSE LET i == EvalE(s.tgt.i, a.st, ln) IN
                             IF i.sig # "ok" THEN i
                             ELSE IF i.v.v < 0 \/ i.v.v >= Len(i.st.heap[a.v.a].es) THEN Fail(i.st, "oob", "", ln)
                             ELSE Ok([i.st EXCEPT !.heap[a.v.a].es[i.v.v + 1] = rhs.v], NilV)
                   [] s.tgt.k = "fld" ->
                        LET o == EvalE(s.tgt.o, rhs.st, ln) IN
                        IF o.sig # "ok" THEN o
                        ELSE LET j == IndexOf(StructDef(st.prog, o.st.heap[o.v.a].n).fs, s.tgt.f, 1) IN
                             Ok([o.st EXCEPT !.heap[o.v.a].fs[j] = rhs.v], NilV))
    [] s.k = "expr"  -> EvalE(s.e, st, ln)
    [] s.k = "print" -> LET r == EvalE(s.e, st, ln) IN
                        IF r.sig # "ok" THEN r
                        ELSE Ok([r.st EXCEPT !.out = Append(@, Show(r.v, r.st.heap))], NilV)
    [] s.k = "if"    -> LET c == EvalE(s.c, st, ln) IN
                        IF c.sig # "ok" THEN c
                        ELSE LET r == IF c.v.v THEN ExecBlock(s.t, c.st, ln) ELSE ExecBlock(s.e, c.st, ln)
                             IN IF r.sig = "ok" THEN Ok(r.st, NilV) ELSE r
    [] s.k = "while" -> WhileLoop(s, st, ln)
    [] s.k = "for"   -> \* s.it: [k |-> "count", e] | [k |-> "range", a, b] | [k |-> "array", e]
         IF s.it.k = "count" THEN
            LET r == EvalE(s.it.e, st, ln) IN
            IF r.sig # "ok" THEN r
            ELSE IF r.v.v > 64 THEN Oom(r.st)
            ELSE ForLoop(s, [i \in 1..(IF r.v.v < 0 THEN 0 ELSE r.v.v) |-> IntV(i - 1)], 1, r.st, ln)
         ELSE IF s.it.k = "range" THEN
            LET a == EvalE(s.it.a, st, ln) IN
            IF a.sig # "ok" THEN a
            ELSE LET b == EvalE(s.it.b, a.st, ln) IN
                 IF b.sig # "ok" THEN b
                 ELSE IF b.v.v - a.v.v > 64 THEN Oom(b.st)
                 ELSE ForLoop(s, [i \in 1..(IF b.v.v < a.v.v THEN 0 ELSE b.v.v - a.v.v) |-> IntV(a.v.v + i - 1)], 1, b.st, ln)
         ELSE LET r == EvalE(s.it.e, st, ln) IN
              IF r.sig # "ok" THEN r ELSE ForLoop(s, r.st.heap[r.v.a].es, 1, r.st, ln)
    [] s.k = "break"    -> Sig(st, "brk")
    [] s.k = "continue" -> Sig(st, "cont")
    [] s.k = "ret"   -> LET r == EvalE(s.e, st, ln) IN
                        IF r.sig # "ok" THEN r ELSE [st |-> r.st, v |-> r.v, sig |-> "ret"]
    [] OTHER -> Assert(FALSE, <<"ExecS: unknown statement", s>>)

\* ---------------------------------------------------------------- whole programs
\* prog: [fns |-> Seq(fn def), structs |-> Seq(struct def), main |-> Seq(stmt), mainfile |-> STRING]
InitSt(prog, fuel) ==
  [prog |-> prog, env |-> <<>>, heap |-> <<>>, out |-> <<>>, fuel |-> fuel, depth |-> 0,
   cur |-> [fn |-> "<main>", file |-> prog.mainfile], calls |-> <<>>,
   err |-> [kind |-> "", msg |-> "", loc |-> [file |-> "", line |-> 0, fn |-> ""], trace |-> <<>>]]

RECURSIVE JoinLines(_)
JoinLines(out) == IF out = <<>> THEN "" ELSE out[1] \o "\n" \o JoinLines(Tail(out))

\* scalar results travel as strings (64-bit safe on the Rust side); floats are not compared as results
ResultOf(v) ==
  CASE v.t = "int"  -> [ty |-> "int", v |-> ToString(v.v)]
    [] v.t = "bool" -> [ty |-> "bool", v |-> v.v]
    [] v.t = "str"  -> [ty |-> "string", v |-> v.v]
    [] OTHER        -> [ty |-> "none", v |-> ""]

\* Run(prog, fuel) = [inmodel, status, out, result, err]
Run(prog, fuel) ==
  LET r == ExecSS(prog.main, InitSt(prog, fuel), 1) IN
  [inmodel |-> r.sig # "oom",
   status  |-> IF r.sig = "err" THEN "error" ELSE "done",
   out     |-> JoinLines(r.st.out),
   result  |-> IF r.sig = "ok" THEN ResultOf(r.v) ELSE [ty |-> "none", v |-> ""],
   err     |-> r.st.err]
=============================================================================
