----------------------------- MODULE HostAbi -----------------------------
(***************************************************************************)
(* The host-function ABI of the Abra VM as a stack machine.                *)
(*                                                                         *)
(* A host value (what the embedding Rust program sees: AbraInt, f64, bool, *)
(* String, (), Vec, tuples, Option, Result, generated structs and enums)   *)
(* travels over the operand stack of the green thread.  Three things are   *)
(* defined here:                                                           *)
(*                                                                         *)
(*  Lay(T, v)      the VM value by which *compiled Abra code* represents   *)
(*                 the value v of type T (abra_core/src/translate_bytecode *)
(*                 .rs: ConstructStruct counts only non-void components,   *)
(*                 a variant payload is nil / the single component / a     *)
(*                 struct of the non-void components, arrays of void hold  *)
(*                 nil).  This is the fixed side of the contract.          *)
(*  ToVm / FromVm  the push/pop protocol of the bindings (VmType::to_vm /  *)
(*                 from_vm) over the VM API push_*, pop_*, construct_*,    *)
(*                 deconstruct_*, array_len (abra_core/src/vm.rs), in two  *)
(*                 variants selected by the parameter m:                   *)
(*                   "spec"  the protocol that is right for Lay (void is   *)
(*                           erased wherever the compiler erases it);      *)
(*                   "code"  the protocol as written in host_bindings.rs / *)
(*                           bindings_common.rs (tuples marshal `()` as a  *)
(*                           dummy stack slot).                            *)
(*  the laws       Decode: FromVm on base \o <<Lay(T,v)>> yields v and     *)
(*                 leaves exactly base;  Encode: ToVm(v) on base leaves    *)
(*                 base \o <<Lay(T,v)>>;  RoundTrip: FromVm(ToVm(v)) = v   *)
(*                 with the stack balanced.  Decode/Encode are what make   *)
(*                 "the host gets exactly the arguments passed from Abra"  *)
(*                 and "the returned value arrives unchanged" true.        *)
(*                                                                         *)
(* Types and values are uniform records so that TLC can compare them.      *)
(***************************************************************************)
EXTENDS Naturals, Sequences, FiniteSets, TLC

\* ------------------------------------------------------------------ types
\* [k, name, ts, ns]:  k \in int float bool str void arr tup opt res struct enum variant
Ty(k, name, ts, ns) == [k |-> k, name |-> name, ts |-> ts, ns |-> ns]
TInt == Ty("int", "", <<>>, <<>>)      TFloat == Ty("float", "", <<>>, <<>>)
TBool == Ty("bool", "", <<>>, <<>>)    TStr == Ty("str", "", <<>>, <<>>)
TVoid == Ty("void", "", <<>>, <<>>)
TArr(t) == Ty("arr", "", <<t>>, <<>>)
TTup(ts) == Ty("tup", "", ts, <<>>)
TOpt(t) == Ty("opt", "", <<t>>, <<>>)
TRes(t, e) == Ty("res", "", <<t, e>>, <<>>)
TStruct(name, fnames, ftys) == Ty("struct", name, ftys, fnames)
TVariant(ctor, ptys) == Ty("variant", ctor, ptys, <<>>)
TEnum(name, variants) == Ty("enum", name, variants, [i \in 1..Len(variants) |-> variants[i].name])

IsVoid(t) == t.k = "void"
IsScalar(t) == t.k \in {"int", "float", "bool", "str"}

\* option and result are ordinary enums of the prelude:  some(T) | none ,  ok(T) | err(E)
VariantsOf(t) ==
  CASE t.k = "opt" -> <<TVariant("some", <<t.ts[1]>>), TVariant("none", <<>>)>>
    [] t.k = "res" -> <<TVariant("ok", <<t.ts[1]>>), TVariant("err", <<t.ts[2]>>)>>
    [] t.k = "enum" -> t.ts

\* ------------------------------------------------------------------ host values
\* [k, s, i, vs]: scalars carry their text in s (ints as decimal strings: 64 bit), containers their
\* components in vs, enum-like values the 0-based variant tag in i and the payload components in vs
HV(k, s, i, vs) == [k |-> k, s |-> s, i |-> i, vs |-> vs]
HInt(s) == HV("int", s, 0, <<>>)     HFloat(s) == HV("float", s, 0, <<>>)
HBool(s) == HV("bool", s, 0, <<>>)   HStr(s) == HV("str", s, 0, <<>>)
HUnit == HV("void", "", 0, <<>>)
HArr(vs) == HV("arr", "", 0, vs)
HTup(vs) == HV("tup", "", 0, vs)
HStructV(vs) == HV("struct", "", 0, vs)
HVar(k, tag, vs) == HV(k, "", tag, vs)          \* k \in opt res enum

\* ------------------------------------------------------------------ representative values
\* three values per type (j \in 0..2), built diagonally so that the components of one value differ from
\* each other (a swapped or reversed marshalling is visible), every variant of an enum-like type and the
\* empty / one-element / two-element array occur
ScalarAt(k, j) ==
  CASE k = "int" -> <<"0", "-9223372036854775808", "9223372036854775807">>[j + 1]
    [] k = "float" -> <<"0.5", "2.0", "-1.25">>[j + 1]
    [] k = "bool" -> <<"true", "false", "true">>[j + 1]
    [] k = "str" -> <<"", "a b", "say \"hi\"">>[j + 1]
RECURSIVE ValAt(_, _)
CompsAt(ts, j) == [q \in 1..Len(ts) |-> ValAt(ts[q], (j + q) % 3)]
ValAt(t, j) ==
  CASE IsScalar(t) -> HV(t.k, ScalarAt(t.k, j), 0, <<>>)
    [] t.k = "void" -> HUnit
    [] t.k = "arr" -> HArr(CASE j = 0 -> <<>> [] j = 1 -> <<ValAt(t.ts[1], 0), ValAt(t.ts[1], 1)>> [] j = 2 -> <<ValAt(t.ts[1], 2)>>)
    [] t.k = "tup" -> HTup(CompsAt(t.ts, j))
    [] t.k = "struct" -> HStructV(CompsAt(t.ts, j))
    [] t.k \in {"opt", "res", "enum"} ->
         LET vars == VariantsOf(t)
             \* option: none, some, some; otherwise cycle through the variants
             tag == IF t.k = "opt" THEN (IF j = 0 THEN 1 ELSE 0) ELSE j % Len(vars)
         IN HVar(t.k, tag, CompsAt(vars[tag + 1].ts, j))

\* ------------------------------------------------------------------ VM values (heap objects by value)
\* I int  F float  B bool  S string object  A array object  T struct object  V variant object
MV(k, s, i, vs) == [k |-> k, s |-> s, i |-> i, vs |-> vs]
Nil == MV("I", "0", 0, <<>>)            \* PushNil pushes the integer 0
ScalarKind(t) == CASE t.k = "int" -> "I" [] t.k = "float" -> "F" [] t.k = "bool" -> "B" [] t.k = "str" -> "S"

SelectIdx(n, P(_)) == LET RECURSIVE go(_)
                          go(i) == IF i > n THEN <<>> ELSE (IF P(i) THEN <<i>> ELSE <<>>) \o go(i + 1)
                      IN go(1)
NonVoidIdx(ts) == SelectIdx(Len(ts), LAMBDA i : ~IsVoid(ts[i]))

\* how compiled Abra code lays a value out; only defined for non-void T (void takes no stack slot
\* except as array element / variant payload, where it is nil)
RECURSIVE Lay(_, _)
LaySlot(t, v) == IF IsVoid(t) THEN Nil ELSE Lay(t, v)
LayPayload(ps, vs) ==
  LET nv == NonVoidIdx(ps)
  IN IF Len(nv) = 0 THEN Nil
     ELSE IF Len(nv) = 1 THEN Lay(ps[nv[1]], vs[nv[1]])
     ELSE MV("T", "", 0, [j \in 1..Len(nv) |-> Lay(ps[nv[j]], vs[nv[j]])])
Lay(t, v) ==
  CASE IsScalar(t) -> MV(ScalarKind(t), v.s, 0, <<>>)
    [] t.k = "arr" -> MV("A", "", 0, [j \in 1..Len(v.vs) |-> LaySlot(t.ts[1], v.vs[j])])
    [] t.k \in {"tup", "struct"} ->
         LET nv == NonVoidIdx(t.ts)
         IN MV("T", "", 0, [j \in 1..Len(nv) |-> Lay(t.ts[nv[j]], v.vs[nv[j]])])
    [] t.k \in {"opt", "res", "enum"} ->
         MV("V", "", v.i, <<LayPayload(VariantsOf(t)[v.i + 1].ts, v.vs)>>)

\* ------------------------------------------------------------------ the VM API (vm.rs) on a stack state
\* S = [st |-> sequence of VM values (top = last), ok |-> no panic so far]
Bad(S) == [st |-> S.st, ok |-> FALSE]
Push(S, x) == IF ~S.ok THEN S ELSE [st |-> Append(S.st, x), ok |-> TRUE]
TopOf(S) == S.st[Len(S.st)]
Drop(S, n) == [st |-> SubSeq(S.st, 1, Len(S.st) - n), ok |-> TRUE]
Rev(s) == [j \in 1..Len(s) |-> s[Len(s) + 1 - j]]
\* pop(): `underflow` is an internal error
PopAny(S) == IF ~S.ok \/ Len(S.st) = 0 THEN Bad(S) ELSE Drop(S, 1)
\* pop_int / pop_float / pop_bool / view_string check the tag of the popped value
PopKind(S, kind) == IF ~S.ok \/ Len(S.st) = 0 THEN Bad(S) ELSE IF TopOf(S).k # kind THEN Bad(S) ELSE Drop(S, 1)
\* construct_struct(n) / construct_array(n): pop_n(n) in stack order
Construct(S, kind, n) ==
  IF ~S.ok \/ Len(S.st) < n THEN Bad(S)
  ELSE [st |-> Append(SubSeq(S.st, 1, Len(S.st) - n), MV(kind, "", 0, SubSeq(S.st, Len(S.st) - n + 1, Len(S.st)))),
        ok |-> TRUE]
\* deconstruct_struct / deconstruct_array: pop, push the components in reverse (first component on top)
Deconstruct(S, kind) ==
  IF ~S.ok \/ Len(S.st) = 0 THEN Bad(S) ELSE IF TopOf(S).k # kind THEN Bad(S)
  ELSE [st |-> SubSeq(S.st, 1, Len(S.st) - 1) \o Rev(TopOf(S).vs), ok |-> TRUE]
\* construct_variant(tag): wraps the top of the stack
ConstructVariant(S, tag) ==
  IF ~S.ok \/ Len(S.st) = 0 THEN Bad(S)
  ELSE [st |-> Append(SubSeq(S.st, 1, Len(S.st) - 1), MV("V", "", tag, <<TopOf(S)>>)), ok |-> TRUE]
\* deconstruct_variant: replace the top by its payload, push the tag
DeconstructVariant(S) ==
  IF ~S.ok \/ Len(S.st) = 0 THEN Bad(S) ELSE IF TopOf(S).k # "V" THEN Bad(S)
  ELSE [st |-> SubSeq(S.st, 1, Len(S.st) - 1) \o <<TopOf(S).vs[1], MV("I", "tag", TopOf(S).i, <<>>)>>, ok |-> TRUE]

\* ------------------------------------------------------------------ the bindings protocol
\* the Rust type of a variant's data (bindings_common.rs name_of_variant_data_ty): the single field type,
\* or the tuple of all field types
PayloadTy(ps) == IF Len(ps) = 1 THEN ps[1] ELSE TTup(ps)
PayloadVal(ps, vs) == IF Len(ps) = 1 THEN vs[1] ELSE HTup(vs)
PayloadVs(ps, pv) == IF Len(ps) = 1 THEN <<pv>> ELSE pv.vs

\* which tuple components occupy a stack slot:  "code": all of them (the `()` impl pushes a dummy int
\* and pops one value);  "spec": the non-void ones, as in Lay
SlotIdx(m, ts) == IF m = "code" THEN [j \in 1..Len(ts) |-> j] ELSE NonVoidIdx(ts)

RECURSIVE ToVm(_, _, _, _), ToVmSeq(_, _, _, _, _), FromVm(_, _, _), FromVmSeq(_, _, _, _)

\* push the components idx of (ts, vs) in order
ToVmSeq(m, ts, vs, idx, S) ==
  IF idx = <<>> THEN S ELSE ToVmSeq(m, ts, vs, Tail(idx), ToVm(m, ts[Head(idx)], vs[Head(idx)], S))

\* "spec": payload of a variant, laid out as the compiler does
ToVmPayloadSpec(ps, vs, S) ==
  LET nv == NonVoidIdx(ps)
  IN IF Len(nv) = 0 THEN Push(S, Nil)
     ELSE IF Len(nv) = 1 THEN ToVm("spec", ps[nv[1]], vs[nv[1]], S)
     ELSE Construct(ToVmSeq("spec", ps, vs, nv, S), "T", Len(nv))

ToVm(m, t, v, S) ==
  CASE IsScalar(t) -> Push(S, MV(ScalarKind(t), v.s, 0, <<>>))
    [] t.k = "void" -> Push(S, Nil)                                  \* impl VmType for (): push_int(0)
    [] t.k = "arr" ->
         Construct(ToVmSeq(m, [j \in 1..Len(v.vs) |-> t.ts[1]], v.vs, [j \in 1..Len(v.vs) |-> j], S), "A", Len(v.vs))
    [] t.k = "tup" ->
         LET idx == SlotIdx(m, t.ts) IN Construct(ToVmSeq(m, t.ts, v.vs, idx, S), "T", Len(idx))
    [] t.k = "struct" ->                                             \* emit_struct_def skips void fields
         LET idx == NonVoidIdx(t.ts) IN Construct(ToVmSeq(m, t.ts, v.vs, idx, S), "T", Len(idx))
    [] t.k \in {"opt", "res", "enum"} ->
         LET ps == VariantsOf(t)[v.i + 1].ts
         IN IF m = "spec" THEN ConstructVariant(ToVmPayloadSpec(ps, v.vs, S), v.i)
            ELSE IF ps = <<>> THEN ConstructVariant(Push(S, Nil), v.i)                 \* push_dummy
            ELSE ConstructVariant(ToVm(m, PayloadTy(ps), PayloadVal(ps, v.vs), S), v.i)

\* result of decoding: [v, S]
Dec(v, S) == [v |-> v, S |-> S]

\* decode the components idx (in order), the others are unit; returns [vs, S]
FromVmSeq(m, ts, idx, S) ==
  LET RECURSIVE go(_, _, _)
      go(j, acc, SS) ==
        IF j > Len(ts) THEN [vs |-> acc, S |-> SS]
        ELSE IF \E q \in 1..Len(idx) : idx[q] = j
             THEN LET d == FromVm(m, ts[j], SS) IN go(j + 1, Append(acc, d.v), d.S)
             ELSE go(j + 1, Append(acc, HUnit), SS)
  IN go(1, <<>>, S)

FromVmPayloadSpec(ps, S) ==
  LET nv == NonVoidIdx(ps)
  IN IF Len(nv) = 0 THEN [vs |-> [j \in 1..Len(ps) |-> HUnit], S |-> PopAny(S)]
     ELSE IF Len(nv) = 1 THEN FromVmSeq("spec", ps, nv, S)
     ELSE FromVmSeq("spec", ps, nv, Deconstruct(S, "T"))

FromVm(m, t, S) ==
  IF ~S.ok THEN Dec(HUnit, S)
  ELSE
  CASE IsScalar(t) ->
         IF Len(S.st) > 0 /\ TopOf(S).k = ScalarKind(t)
         THEN Dec(HV(t.k, TopOf(S).s, 0, <<>>), Drop(S, 1)) ELSE Dec(HUnit, Bad(S))
    [] t.k = "void" -> Dec(HUnit, PopAny(S))                          \* impl VmType for (): vm.pop()
    [] t.k = "arr" ->
         IF Len(S.st) = 0 THEN Dec(HUnit, Bad(S)) ELSE IF TopOf(S).k # "A" THEN Dec(HUnit, Bad(S))
         ELSE LET n == Len(TopOf(S).vs)                                \* array_len, deconstruct_array
                  r == FromVmSeq(m, [j \in 1..n |-> t.ts[1]], [j \in 1..n |-> j], Deconstruct(S, "A"))
              IN Dec(HArr(r.vs), r.S)
    [] t.k = "tup" ->
         LET r == FromVmSeq(m, t.ts, SlotIdx(m, t.ts), Deconstruct(S, "T")) IN Dec(HTup(r.vs), r.S)
    [] t.k = "struct" ->
         LET r == FromVmSeq(m, t.ts, NonVoidIdx(t.ts), Deconstruct(S, "T")) IN Dec(HStructV(r.vs), r.S)
    [] t.k \in {"opt", "res", "enum"} ->
         LET S1 == DeconstructVariant(S)
         IN IF ~S1.ok THEN Dec(HUnit, S1)
            ELSE LET tag == TopOf(S1).i                                 \* pop_int
                     S2 == Drop(S1, 1)
                     vars == VariantsOf(t)
                 IN IF tag + 1 > Len(vars) THEN Dec(HUnit, Bad(S2))     \* panic!("unexpected tag")
                    ELSE LET ps == vars[tag + 1].ts
                         IN IF m = "spec"
                            THEN LET r == FromVmPayloadSpec(ps, S2) IN Dec(HVar(t.k, tag, r.vs), r.S)
                            ELSE IF ps = <<>> THEN Dec(HVar(t.k, tag, <<>>), PopAny(S2))     \* pop_discard
                            ELSE LET d == FromVm(m, PayloadTy(ps), S2)
                                 IN Dec(HVar(t.k, tag, IF d.S.ok THEN PayloadVs(ps, d.v) ELSE <<>>), d.S)

\* ------------------------------------------------------------------ a whole call
\* HostFunctionArgs::from_vm: arguments are popped last first; a void argument is `()` without a pop.
\* The caller (compiled code) pushed the non-void arguments in order.
ArgsStack(base, ts, vs) ==
  LET nv == NonVoidIdx(ts) IN base \o [j \in 1..Len(nv) |-> Lay(ts[nv[j]], vs[nv[j]])]
ArgsFromVm(m, ts, S) ==
  LET RECURSIVE go(_, _, _)
      go(j, acc, SS) ==
        IF j = 0 THEN [vs |-> acc, S |-> SS]
        ELSE IF IsVoid(ts[j]) THEN go(j - 1, <<HUnit>> \o acc, SS)
        ELSE LET d == FromVm(m, ts[j], SS) IN go(j - 1, <<d.v>> \o acc, d.S)
  IN go(Len(ts), <<>>, S)
\* HostFunctionRet::into_vm: nothing for void, `(out0, .., outn).to_vm` for a tuple type, `out.to_vm` otherwise
RetToVm(m, t, v, S) == IF IsVoid(t) THEN S ELSE ToVm(m, t, v, S)
RetStack(base, t, v) == IF IsVoid(t) THEN base ELSE Append(base, Lay(t, v))

\* ------------------------------------------------------------------ the laws
Sentinel == MV("S", "sentinel", 0, <<>>)
Base == [st |-> <<Sentinel>>, ok |-> TRUE]
DecodeLaw(m, t, v) ==
  LET d == FromVm(m, t, [st |-> <<Sentinel, Lay(t, v)>>, ok |-> TRUE]) IN d.S.ok /\ d.v = v /\ d.S = Base
EncodeLaw(m, t, v) == ToVm(m, t, v, Base) = [st |-> <<Sentinel, Lay(t, v)>>, ok |-> TRUE]
RoundTripLaw(m, t, v) ==
  LET d == FromVm(m, t, ToVm(m, t, v, Base)) IN d.S.ok /\ d.v = v /\ d.S = Base
\* one value on top of the base, base untouched
BalanceLaw(m, t, v) ==
  LET S == ToVm(m, t, v, Base) IN S.ok /\ Len(S.st) = 2 /\ S.st[1] = Sentinel
\* the four laws at once (shared sub-results: TLC does not memoise operator applications)
LawsAt(m, t, v) ==
  LET L == Lay(t, v)
      onstack == [st |-> <<Sentinel, L>>, ok |-> TRUE]
      E == ToVm(m, t, v, Base)
      D == FromVm(m, t, E)
      D2 == IF E = onstack THEN D ELSE FromVm(m, t, onstack)
  IN [decode |-> D2.S.ok /\ D2.v = v /\ D2.S = Base,
      encode |-> E = onstack,
      roundtrip |-> D.S.ok /\ D.v = v /\ D.S = Base,
      balance |-> E.ok /\ Len(E.st) = 2 /\ E.st[1] = Sentinel]
CallLaw(m, ts, vs) ==
  LET r == ArgsFromVm(m, ts, [st |-> ArgsStack(<<Sentinel>>, ts, vs), ok |-> TRUE])
  IN r.S.ok /\ r.vs = vs /\ r.S = Base

\* ------------------------------------------------------------------ structural classification
\* a tuple type with a void component, or an enum variant with several fields one of which is void:
\* the places where the "code" protocol and Lay disagree
RECURSIVE HasVoidTuple(_), HasVoidMultiVariant(_)
AnySub(t, P(_)) == \E j \in 1..Len(t.ts) : P(t.ts[j])
HasVoidTuple(t) ==
  \/ t.k = "tup" /\ \E j \in 1..Len(t.ts) : IsVoid(t.ts[j])
  \/ AnySub(t, HasVoidTuple)
HasVoidMultiVariant(t) ==
  \/ t.k = "variant" /\ Len(t.ts) >= 2 /\ \E j \in 1..Len(t.ts) : IsVoid(t.ts[j])
  \/ AnySub(t, HasVoidMultiVariant)

\* the same on a value: does v (of type t) really contain such a tuple / variant instance?
RECURSIVE ExVoidTuple(_, _), ExVoidMultiVariant(_, _)
SubEx(t, v, P(_, _)) ==
  CASE t.k = "arr" -> \E j \in 1..Len(v.vs) : P(t.ts[1], v.vs[j])
    [] t.k \in {"tup", "struct"} -> \E j \in 1..Len(t.ts) : P(t.ts[j], v.vs[j])
    [] t.k \in {"opt", "res", "enum"} ->
         LET ps == VariantsOf(t)[v.i + 1].ts IN \E j \in 1..Len(ps) : P(ps[j], v.vs[j])
    [] OTHER -> FALSE
ExVoidTuple(t, v) ==
  \/ t.k = "tup" /\ \E j \in 1..Len(t.ts) : IsVoid(t.ts[j])
  \/ SubEx(t, v, ExVoidTuple)
ExVoidMultiVariant(t, v) ==
  \/ t.k \in {"opt", "res", "enum"} /\
       LET ps == VariantsOf(t)[v.i + 1].ts IN Len(ps) >= 2 /\ \E j \in 1..Len(ps) : IsVoid(ps[j])
  \/ SubEx(t, v, ExVoidMultiVariant)

RECURSIVE TyDepth(_)
MaxOf(s) == IF s = {} THEN 0 ELSE CHOOSE x \in s : \A y \in s : y <= x
TyDepth(t) ==
  IF t.k \in {"arr", "tup", "opt", "res"} THEN 1 + MaxOf({TyDepth(t.ts[j]) : j \in 1..Len(t.ts)}) ELSE 0
=============================================================================
