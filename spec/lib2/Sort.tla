----------------------------- MODULE Sort -----------------------------
(***************************************************************************)
(* What "sorted" means (C25), as predicates on (input, output, order):     *)
(*   - the output is a PERMUTATION of the input,                           *)
(*   - it is in NON-DECREASING order of the comparison that was given,     *)
(*   - (sort_by, sort_by_key) it is STABLE: elements that the comparison   *)
(*     treats as equal keep their original relative order.                 *)
(* Elements are records [k |-> key, tag |-> position in the input, from 0] *)
(* (the tag makes equal-key elements distinguishable, as the tuples        *)
(* (key, tag) of the test programs do).  An order is an operator           *)
(* Leq(a, b) on elements.                                                  *)
(*                                                                         *)
(* Each predicate has a defining form (all pairs / bags) and a linear form *)
(* used on long arrays; Lemmas (checked by TLC, see SortLemmas in          *)
(* spec/props/C25V.tla) state that they agree for total preorders.         *)
(***************************************************************************)
EXTENDS Naturals, Integers, Sequences, FiniteSets, TLC

Elem(k, tag) == [k |-> k, tag |-> tag]
Tagged(keys) == [i \in 1..Len(keys) |-> Elem(keys[i], i - 1)]

\* ---------------------------------------------------------------- orders used by the programs
LeqKey(a, b)     == a.k <= b.k                                  \* (x, y) -> kx <= ky ; sort_by_key(p -> k)
GeqKey(a, b)     == a.k >= b.k                                  \* (x, y) -> kx >= ky (descending)
LtKey(a, b)      == a.k < b.k                                   \* strict comparator given as less_than_or_equal
LeqLex(a, b)     == a.k < b.k \/ (a.k = b.k /\ a.tag <= b.tag)  \* Ord of the tuple (k, tag): lexicographic
LeqBy(ord, a, b) == CASE ord = "leq" -> LeqKey(a, b) [] ord = "geq" -> GeqKey(a, b)
                      [] ord = "lt" -> LtKey(a, b) [] ord = "lex" -> LeqLex(a, b)
\* a and b are equivalent for the order: neither is strictly before the other
Before(ord, a, b) == LeqBy(ord, a, b) /\ ~LeqBy(ord, b, a)
Equiv(ord, a, b)  == ~Before(ord, a, b) /\ ~Before(ord, b, a)

\* ---------------------------------------------------------------- permutation
Count(s, x) == Cardinality({i \in 1..Len(s) : s[i] = x})
Elems(s) == {s[i] : i \in 1..Len(s)}
\* definition: equal as bags
IsPermutation(in, out) ==
  Len(in) = Len(out) /\ \A x \in Elems(in) \cup Elems(out) : Count(in, x) = Count(out, x)
\* linear form for tagged input (tags are the positions 0..n-1, all different)
IsTaggedPermutation(in, out) ==
  /\ Len(in) = Len(out)
  /\ \A i \in 1..Len(out) : out[i].tag \in 0..Len(in) - 1 /\ in[out[i].tag + 1] = out[i]
  /\ Cardinality({out[i].tag : i \in 1..Len(out)}) = Len(out)
\* n log n form for plain integers: two sequences are permutations of each other iff they sort to the same sequence
IsIntPermutation(in, out) ==
  Len(in) = Len(out) /\ SortSeq(in, LAMBDA a, b : a < b) = SortSeq(out, LAMBDA a, b : a < b)

\* ---------------------------------------------------------------- order
\* definition: no element is strictly before an earlier one
SortedBy(out, ord) == \A i, j \in 1..Len(out) : i < j => ~Before(ord, out[j], out[i])
\* linear form (equivalent when the order is a total preorder)
SortedAdj(out, ord) == \A i \in 1..Len(out) - 1 : ~Before(ord, out[i + 1], out[i])

\* ---------------------------------------------------------------- stability
\* definition: equivalent elements appear in their input order (tag = input position)
StableBy(out, ord) == \A i, j \in 1..Len(out) : i < j /\ Equiv(ord, out[i], out[j]) => out[i].tag < out[j].tag
\* linear form (equivalent when out is sorted: equivalent elements are adjacent)
StableAdj(out, ord) == \A i \in 1..Len(out) - 1 : Equiv(ord, out[i], out[i + 1]) => out[i].tag < out[i + 1].tag

\* ---------------------------------------------------------------- the property
Small == 48     \* up to this length the defining forms are evaluated, beyond it the linear forms
PermOK(in, out)     == IF Len(in) <= Small THEN IsPermutation(in, out) /\ IsTaggedPermutation(in, out)
                       ELSE IsTaggedPermutation(in, out)
SortedOK(out, ord)  == IF Len(out) <= Small THEN SortedBy(out, ord) ELSE SortedAdj(out, ord)
StableOK(out, ord)  == IF Len(out) <= Small THEN StableBy(out, ord) ELSE StableAdj(out, ord)

\* reference result (unique for a total preorder): insert each input element, in input order, after every element
\* that is not strictly after it.  Used by the lemmas: it satisfies the three predicates and is the only such sequence.
InsertInto(s, x, ord) ==
  LET p == Cardinality({i \in 1..Len(s) : ~Before(ord, x, s[i])})   \* s is sorted: these positions form a prefix
  IN SubSeq(s, 1, p) \o <<x>> \o SubSeq(s, p + 1, Len(s))
RECURSIVE InsertAll(_, _, _, _)
InsertAll(in, i, acc, ord) == IF i > Len(in) THEN acc ELSE InsertAll(in, i + 1, InsertInto(acc, in[i], ord), ord)
StableSorted(in, ord) == InsertAll(in, 1, <<>>, ord)
=============================================================================
