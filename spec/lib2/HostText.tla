----------------------------- MODULE HostText -----------------------------
(***************************************************************************)
(* Concrete text for the host-function conformance cases of C36:           *)
(*   - `#host` declarations (types and functions) in Abra syntax,          *)
(*   - Abra literals of host values and the caller program,                *)
(*   - the two renderings by which a value is observed:                    *)
(*       AbraShow  what the Abra program prints for a value it got back    *)
(*                 (prelude ToString for built-in types, generated         *)
(*                 `implement ToString` for the user types of the case),   *)
(*       RustDbg   the `{:?}` rendering of the value the host received     *)
(*                 (types per the mapping table of foreign_functions.md:   *)
(*                 int->AbraInt, float->f64, string->String, void->(),     *)
(*                 option->Option, result->Result, array->Vec, tuples,     *)
(*                 `#host type` -> generated struct / enum).               *)
(* Types and values are those of HostAbi.                                  *)
(***************************************************************************)
EXTENDS HostAbi, TLC

RECURSIVE JoinT(_, _)
JoinT(ss, sep) == IF ss = <<>> THEN "" ELSE IF Len(ss) = 1 THEN ss[1] ELSE ss[1] \o sep \o JoinT(Tail(ss), sep)

\* ---- scalar pools.  s is the Abra literal; ints/bools/floats print in Rust Debug exactly as the literal
\* (the float literals are chosen that way); Abra prints floats through Rust Display.
IntPool == <<"0", "1", "-1", "42", "-7", "255", "65536", "2147483647", "2147483648", "-2147483649",
             "4294967296", "9007199254740993", "9223372036854775807", "-9223372036854775807",
             "-9223372036854775808">>
FloatPool == <<"0.5", "2.0", "-1.25", "0.0", "1000000.0", "3.75", "-0.5", "123456.789">>
FloatDisp(s) == CASE s = "2.0" -> "2" [] s = "0.0" -> "0" [] s = "1000000.0" -> "1000000" [] OTHER -> s
BoolPool == <<"true", "false">>
\* raw string contents (ASCII); quote and backslash need escaping in an Abra literal and in Rust Debug
StrPool == <<"", "a", "hello world", "x,y", "nil", "(1, 2)", "say \"hi\"", "back\\slash", "UPPER lower 0123456789">>

RECURSIVE EscFrom(_, _)
EscFrom(s, i) ==
  IF i > Len(s) THEN ""
  ELSE LET c == SubSeq(s, i, i)
       IN (IF c = "\"" THEN "\\\"" ELSE IF c = "\\" THEN "\\\\" ELSE c) \o EscFrom(s, i + 1)
Quoted(s) == "\"" \o EscFrom(s, 1) \o "\""

\* ---- Abra type syntax
RECURSIVE AbraTy(_)
AbraTy(t) ==
  CASE t.k = "int" -> "int" [] t.k = "float" -> "float" [] t.k = "bool" -> "bool" [] t.k = "str" -> "string"
    [] t.k = "void" -> "void"
    [] t.k = "arr" -> "array<" \o AbraTy(t.ts[1]) \o ">"
    [] t.k = "opt" -> "option<" \o AbraTy(t.ts[1]) \o ">"
    [] t.k = "res" -> "result<" \o AbraTy(t.ts[1]) \o ", " \o AbraTy(t.ts[2]) \o ">"
    [] t.k = "tup" -> "(" \o JoinT([j \in 1..Len(t.ts) |-> AbraTy(t.ts[j])], ", ") \o ")"
    [] t.k \in {"struct", "enum"} -> t.name

\* ---- Abra literal of a value
RECURSIVE AbraLit(_, _)
LitArgs(ts, vs) == JoinT([j \in 1..Len(ts) |-> AbraLit(ts[j], vs[j])], ", ")
AbraLit(t, v) ==
  CASE t.k \in {"int", "float", "bool"} -> v.s
    [] t.k = "str" -> Quoted(v.s)
    [] t.k = "void" -> "nil"
    [] t.k = "arr" -> "[" \o JoinT([j \in 1..Len(v.vs) |-> AbraLit(t.ts[1], v.vs[j])], ", ") \o "]"
    [] t.k = "tup" -> "(" \o LitArgs(t.ts, v.vs) \o ")"
    [] t.k = "struct" -> t.name \o "(" \o LitArgs(t.ts, v.vs) \o ")"
    [] t.k \in {"opt", "res", "enum"} ->
         LET var == VariantsOf(t)[v.i + 1]
             q == CASE t.k = "opt" -> "option" [] t.k = "res" -> "result" [] OTHER -> t.name
         IN q \o "." \o var.name \o (IF var.ts = <<>> THEN "" ELSE "(" \o LitArgs(var.ts, v.vs) \o ")")

\* ---- what Abra prints for the value (ToString)
RECURSIVE AbraShow(_, _)
ShowArgs(ts, vs, sep) == JoinT([j \in 1..Len(ts) |-> AbraShow(ts[j], vs[j])], sep)
AbraShow(t, v) ==
  CASE t.k \in {"int", "bool", "str"} -> v.s
    [] t.k = "float" -> FloatDisp(v.s)
    [] t.k = "void" -> "nil"
    [] t.k = "arr" -> IF v.vs = <<>> THEN "[  ]"
                      ELSE "[ " \o JoinT([j \in 1..Len(v.vs) |-> AbraShow(t.ts[1], v.vs[j])], ", ") \o " ]"
    [] t.k = "tup" -> "(" \o ShowArgs(t.ts, v.vs, ", ") \o ")"
    [] t.k = "struct" -> t.name \o "<" \o ShowArgs(t.ts, v.vs, "|") \o ">"          \* the generated impl below
    [] t.k \in {"opt", "res"} ->
         LET var == VariantsOf(t)[v.i + 1]
         IN var.name \o (IF var.ts = <<>> THEN "" ELSE "(" \o ShowArgs(var.ts, v.vs, ", ") \o ")")
    [] t.k = "enum" ->
         LET var == t.ts[v.i + 1]
         IN var.name \o (IF var.ts = <<>> THEN "" ELSE "<" \o ShowArgs(var.ts, v.vs, "|") \o ">")

\* ---- `{:?}` of the value the host received
RECURSIVE RustDbg(_, _)
DbgArgs(ts, vs) == JoinT([j \in 1..Len(ts) |-> RustDbg(ts[j], vs[j])], ", ")
RustDbg(t, v) ==
  CASE t.k \in {"int", "float", "bool"} -> v.s
    [] t.k = "str" -> Quoted(v.s)
    [] t.k = "void" -> "()"
    [] t.k = "arr" -> "[" \o JoinT([j \in 1..Len(v.vs) |-> RustDbg(t.ts[1], v.vs[j])], ", ") \o "]"
    [] t.k = "tup" -> "(" \o DbgArgs(t.ts, v.vs) \o ")"
    [] t.k = "struct" ->
         t.name \o " { " \o JoinT([j \in 1..Len(t.ts) |-> t.ns[j] \o ": " \o RustDbg(t.ts[j], v.vs[j])], ", ") \o " }"
    [] t.k \in {"opt", "res", "enum"} ->
         LET var == VariantsOf(t)[v.i + 1]
             ctor == CASE var.name = "some" -> "Some" [] var.name = "none" -> "None"
                       [] var.name = "ok" -> "Ok" [] var.name = "err" -> "Err" [] OTHER -> var.name
         IN ctor \o (IF var.ts = <<>> THEN ""
                     ELSE IF Len(var.ts) = 1 THEN "(" \o RustDbg(var.ts[1], v.vs[1]) \o ")"
                     ELSE "((" \o DbgArgs(var.ts, v.vs) \o "))")          \* the data of a variant is one tuple

\* ---- declarations
StructDecl(t) ==
  "#host\ntype " \o t.name \o " = {\n"
  \o JoinT([j \in 1..Len(t.ts) |-> "    " \o t.ns[j] \o ": " \o AbraTy(t.ts[j])], "\n") \o "\n}\n"
EnumDecl(t) ==
  "#host\ntype " \o t.name \o " =\n"
  \o JoinT([j \in 1..Len(t.ts) |->
        "    | " \o t.ts[j].name \o
        (IF t.ts[j].ts = <<>> THEN ""
         ELSE "(" \o JoinT([q \in 1..Len(t.ts[j].ts) |-> AbraTy(t.ts[j].ts[q])], ", ") \o ")")], "\n") \o "\n"
TypeDecl(t) == IF t.k = "struct" THEN StructDecl(t) ELSE EnumDecl(t)

\* `implement ToString` for a user type, so that println works on everything the case passes around
PieceCat(ps) == JoinT(ps, " .. ")
StructImpl(t) ==
  "implement ToString for " \o t.name \o " {\n    fn str(v: " \o t.name \o ") -> string {\n        "
  \o PieceCat(<<Quoted(t.name \o "<")>> \o
       [j \in 1..(2 * Len(t.ts) - 1) |->
          IF j % 2 = 0 THEN Quoted("|")
          ELSE IF IsVoid(t.ts[(j + 1) \div 2]) THEN Quoted("nil") ELSE "v." \o t.ns[(j + 1) \div 2]]
       \o <<Quoted(">")>>)
  \o "\n    }\n}\n"
EnumImpl(t) ==
  "implement ToString for " \o t.name \o " {\n    fn str(v: " \o t.name \o ") -> string {\n        match v {\n"
  \o JoinT([j \in 1..Len(t.ts) |->
       LET var == t.ts[j]
           n == Len(var.ts)
       IN "            ." \o var.name \o
          (IF n = 0 THEN " -> " \o Quoted(var.name)
           ELSE "(" \o JoinT([q \in 1..n |-> IF IsVoid(var.ts[q]) THEN "_" ELSE "x" \o ToString(q)], ", ") \o ") -> "
                \o PieceCat(<<Quoted(var.name \o "<")>> \o
                     [q \in 1..(2 * n - 1) |->
                        IF q % 2 = 0 THEN Quoted("|")
                        ELSE IF IsVoid(var.ts[(q + 1) \div 2]) THEN Quoted("nil") ELSE "x" \o ToString((q + 1) \div 2)]
                     \o <<Quoted(">")>>))], "\n")
  \o "\n        }\n    }\n}\n"
TypeImpl(t) == IF t.k = "struct" THEN StructImpl(t) ELSE EnumImpl(t)

\* ---- a host function and its call
\* sig = [name, camel, args (types), retvoid (BOOLEAN)]; the host echoes its non-void arguments:
\* none -> void, one -> that type, several -> their tuple
KeepIdx(sig) == IF sig.retvoid THEN <<>> ELSE NonVoidIdx(sig.args)
RetTy(sig) ==
  LET keep == KeepIdx(sig)
  IN IF keep = <<>> THEN TVoid ELSE IF Len(keep) = 1 THEN sig.args[keep[1]]
     ELSE TTup([j \in 1..Len(keep) |-> sig.args[keep[j]]])
RetVal(sig, vs) ==
  LET keep == KeepIdx(sig)
  IN IF keep = <<>> THEN HUnit ELSE IF Len(keep) = 1 THEN vs[keep[1]]
     ELSE HTup([j \in 1..Len(keep) |-> vs[keep[j]]])
FnDecl(sig) ==
  "#host\nfn " \o sig.name \o "("
  \o JoinT([j \in 1..Len(sig.args) |-> "p" \o ToString(j) \o ": " \o AbraTy(sig.args[j])], ", ")
  \o ") -> " \o AbraTy(RetTy(sig)) \o "\n"
\* plain data for the echo glue of the harness (0-based argument positions)
SigDesc(sig) ==
  LET keep == KeepIdx(sig)
      rt == RetTy(sig)
  IN [name |-> sig.name, nargs |-> Len(sig.args), keep |-> [j \in 1..Len(keep) |-> keep[j] - 1],
      ret |-> IF IsVoid(rt) THEN "void" ELSE IF Len(keep) = 1 /\ rt.k = "tup" THEN "spread" ELSE "args",
      n |-> IF rt.k = "tup" THEN Len(rt.ts) ELSE 0]
HostCallDbg(sig, vs) ==
  sig.camel \o (IF sig.args = <<>> THEN "" ELSE "(" \o DbgArgs(sig.args, vs) \o ")")

Marker == "424242"
Marker2 == "515151"
\* the caller: two locals around the arguments (they live below the call's operands on the stack), bind the
\* arguments with their declared types, call, print what came back, then the locals and the arguments again
MainText(users, sig, vs) ==
  LET n == Len(sig.args)
      nv == NonVoidIdx(sig.args)
      lets == [j \in 1..n |->
                IF IsVoid(sig.args[j]) THEN ""
                ELSE "let a" \o ToString(j) \o ": " \o AbraTy(sig.args[j]) \o " = " \o AbraLit(sig.args[j], vs[j]) \o "\n"]
      \* the host function is called by name, or through a variable that holds it as a first-class value
      byvalue == "via" \in DOMAIN sig /\ sig.via = "value"
      call == (IF byvalue THEN "hv" ELSE sig.name) \o "("
              \o JoinT([j \in 1..n |-> IF IsVoid(sig.args[j]) THEN "nil" ELSE "a" \o ToString(j)], ", ") \o ")"
  IN "use host\n"
     \o JoinT([j \in 1..Len(users) |-> TypeImpl(users[j])], "")
     \o (IF byvalue THEN "let hv = " \o sig.name \o "\n" ELSE "")
     \o "let marker = " \o Marker \o "\n"
     \o JoinT(lets, "")
     \o "let marker2 = " \o Marker2 \o "\n"
     \o (IF IsVoid(RetTy(sig)) THEN call \o "\n" ELSE "let r = " \o call \o "\nprintln(r)\n")
     \o "println(marker)\nprintln(marker2)\n"
     \o JoinT([j \in 1..Len(nv) |-> "println(a" \o ToString(nv[j]) \o ")\n"], "")
ExpectOut(sig, vs) ==
  LET nv == NonVoidIdx(sig.args)
  IN (IF IsVoid(RetTy(sig)) THEN "" ELSE AbraShow(RetTy(sig), RetVal(sig, vs)) \o "\n")
     \o Marker \o "\n" \o Marker2 \o "\n"
     \o JoinT([j \in 1..Len(nv) |-> AbraShow(sig.args[nv[j]], vs[nv[j]]) \o "\n"], "")

\* ---- what a case exercises (for the coverage report)
RECURSIVE TyFeat(_)
TyFeat(t) ==
  LET hasvoid == \E j \in 1..Len(t.ts) : IsVoid(t.ts[j])
      own == CASE t.k = "arr" -> IF hasvoid THEN {"array<void>"} ELSE {"array"}
               [] t.k = "opt" -> IF hasvoid THEN {"option<void>"} ELSE {"option"}
               [] t.k = "res" -> IF hasvoid THEN {"result-with-void"} ELSE {"result"}
               [] t.k = "tup" -> {"tuple" \o ToString(Len(t.ts))} \cup (IF hasvoid THEN {"tuple-with-void"} ELSE {})
               [] t.k = "struct" -> IF hasvoid THEN {"struct-with-void-field"} ELSE {"struct"}
               [] t.k = "variant" -> IF t.ts = <<>> THEN {"variant-no-field"}
                                     ELSE IF Len(t.ts) = 1 THEN (IF hasvoid THEN {"variant-one-void-field"} ELSE {"variant-one-field"})
                                     ELSE (IF hasvoid THEN {"variant-several-fields-with-void"} ELSE {"variant-several-fields"})
               [] OTHER -> {t.k}
  IN own \cup UNION {TyFeat(t.ts[j]) : j \in 1..Len(t.ts)}
RECURSIVE ValFeat(_, _)
ValFeat(t, v) ==
  CASE t.k = "arr" -> {IF v.vs = <<>> THEN "value:empty-array" ELSE "value:array-" \o ToString(Len(v.vs))}
                      \cup UNION {ValFeat(t.ts[1], v.vs[j]) : j \in 1..Len(v.vs)}
    [] t.k \in {"tup", "struct"} -> UNION {ValFeat(t.ts[j], v.vs[j]) : j \in 1..Len(t.ts)}
    [] t.k \in {"opt", "res", "enum"} ->
         LET var == VariantsOf(t)[v.i + 1]
         IN {"value:" \o (IF t.k = "enum" THEN "variant-tag-" \o ToString(v.i) ELSE var.name)}
            \cup UNION {ValFeat(var.ts[j], v.vs[j]) : j \in 1..Len(var.ts)}
    [] OTHER -> {}
CaseFeat(sig, vs) ==
  UNION {TyFeat(sig.args[j]) \cup ValFeat(sig.args[j], vs[j]) : j \in 1..Len(sig.args)}
  \cup (IF \E j \in 1..Len(sig.args) : IsVoid(sig.args[j]) THEN {"void-parameter"} ELSE {})
  \cup {"arity-" \o ToString(Len(sig.args)), "returns:" \o SigDesc(sig).ret}
  \cup (IF "via" \in DOMAIN sig /\ sig.via = "value" THEN {"called-through-function-value"} ELSE {})

\* ---- defect families (see HostAbi: where the protocol as written and the compiler's layout disagree)
KeyOf(sig, vs) ==
  LET n == Len(sig.args)
      rt == RetTy(sig)
  IN IF \E j \in 1..n : ~IsVoid(sig.args[j]) /\ ExVoidMultiVariant(sig.args[j], vs[j])
     THEN "C36|enum-variant-with-several-fields-one-void"
     ELSE IF \E j \in 1..n : ~IsVoid(sig.args[j]) /\ ExVoidTuple(sig.args[j], vs[j])
     THEN "C36|tuple-with-void-element"
     ELSE ""

\* the user types a signature needs: those its parameter types mention, and those mentioned by needed ones
\* (a type may only mention types that precede it in `users`)
RECURSIVE Mentions(_, _)
Mentions(t, name) == (t.k \in {"struct", "enum"} /\ t.name = name) \/ \E j \in 1..Len(t.ts) : Mentions(t.ts[j], name)
RECURSIVE NeededFrom(_, _, _)
NeededFrom(users, k, roots) ==
  IF k = 0 THEN <<>>
  ELSE IF \E j \in 1..Len(roots) : Mentions(roots[j], users[k].name)
       THEN NeededFrom(users, k - 1, Append(roots, users[k])) \o <<users[k]>>
       ELSE NeededFrom(users, k - 1, roots)
Needed(users, args) == NeededFrom(users, Len(users), args)

\* the complete conformance case
HostCase(id, allusers, sig, vs) ==
  LET users == Needed(allusers, sig.args) IN
  [id |-> id, main |-> id \o ".abra",
   types |-> [j \in 1..Len(users) |-> [name |-> users[j].name, decl |-> TypeDecl(users[j])]],
   decl |-> FnDecl(sig),
   sig |-> SigDesc(sig),
   text |-> MainText(users, sig, vs),
   arity |-> Len(sig.args),
   depth |-> MaxOf({TyDepth(sig.args[j]) : j \in 1..Len(sig.args)}),
   feat |-> CaseFeat(sig, vs),
   expect |-> [status |-> "done", out |-> ExpectOut(sig, vs), host |-> <<HostCallDbg(sig, vs)>>]]
  @@ (IF KeyOf(sig, vs) # "" THEN [key |-> KeyOf(sig, vs)] ELSE <<>>)
=============================================================================
