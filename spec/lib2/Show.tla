----------------------------- MODULE Show -----------------------------
(***************************************************************************)
(* Text rendering of built-in values (the prelude's ToString), as the      *)
(* language reference documents it (builtin_types.md, operators.md `..`,   *)
(* interfaces.md ToString, enums/option/result):                           *)
(*   int      decimal, `-` sign, no padding                                *)
(*   bool     true / false              void   nil                         *)
(*   string   verbatim (no quotes, no escaping), also inside containers    *)
(*   float    shortest decimal (Rust Display): 3.0 -> 3, 2.5 -> 2.5        *)
(*            (only exact dyadic values n/2^e are in the model)            *)
(*   array    [ a, b ]     tuple (a, b)                                    *)
(*   option   some(x) / none            result ok(x) / err(e)              *)
(* recursively.  The reference does not say how an EMPTY array is written; *)
(* ShowV takes that spelling as a parameter and the check accepts any of   *)
(* EmptySpellings, uniformly within one program.                           *)
(*                                                                         *)
(* Types   [k |-> "int"|"bool"|"nil"|"str"|"flt"], [k |-> "arr", of],      *)
(*         [k |-> "opt", of], [k |-> "res", ok, err], [k |-> "tup", ts]    *)
(* Values  [t |-> "int", v] | [t |-> "big", lit] (canonical decimal        *)
(*         spelling of an int that does not fit TLC's 32 bits) | "bool" v  *)
(*         | "nil" | "str" v | "flt" n e | "arr" es | "tup" es             *)
(*         | "some" x | "none" | "ok" x | "err" x                          *)
(***************************************************************************)
EXTENDS Render

TInt == [k |-> "int"]   TBool == [k |-> "bool"]   TNil == [k |-> "nil"]
TStr == [k |-> "str"]   TFlt == [k |-> "flt"]
TArr(t) == [k |-> "arr", of |-> t]
TOpt(t) == [k |-> "opt", of |-> t]
TRes(t, u) == [k |-> "res", ok |-> t, err |-> u]
TTup(ts) == [k |-> "tup", ts |-> ts]

VInt(n) == [t |-> "int", v |-> n]
VBig(lit) == [t |-> "big", lit |-> lit]
VBool(b) == [t |-> "bool", v |-> b]
VNil == [t |-> "nil"]
VStr(s) == [t |-> "str", v |-> s]
VFlt(n, e) == [t |-> "flt", n |-> n, e |-> e]
VArr(es) == [t |-> "arr", es |-> es]
VTup(es) == [t |-> "tup", es |-> es]
VSome(x) == [t |-> "some", x |-> x]
VNone == [t |-> "none"]
VOk(x) == [t |-> "ok", x |-> x]
VErr(x) == [t |-> "err", x |-> x]

EmptySpellings == <<"[  ]", "[ ]", "[]">>

\* ---------------------------------------------------------------- the documented rendering
RECURSIVE ShowV(_, _), ShowVs(_, _)
ShowV(v, emp) ==
  CASE v.t = "int"  -> ToString(v.v)
    [] v.t = "big"  -> v.lit
    [] v.t = "bool" -> IF v.v THEN "true" ELSE "false"
    [] v.t = "nil"  -> "nil"
    [] v.t = "str"  -> v.v
    [] v.t = "flt"  -> ShowFlt(v.n, v.e)
    [] v.t = "arr"  -> IF v.es = <<>> THEN emp ELSE "[ " \o ShowVs(v.es, emp) \o " ]"
    [] v.t = "tup"  -> "(" \o ShowVs(v.es, emp) \o ")"
    [] v.t = "some" -> "some(" \o ShowV(v.x, emp) \o ")"
    [] v.t = "none" -> "none"
    [] v.t = "ok"   -> "ok(" \o ShowV(v.x, emp) \o ")"
    [] v.t = "err"  -> "err(" \o ShowV(v.x, emp) \o ")"
ShowVs(es, emp) == JoinS([i \in 1..Len(es) |-> ShowV(es[i], emp)], ", ")

RECURSIVE HasEmptyArr(_)
HasEmptyArr(v) ==
  CASE v.t = "arr" -> v.es = <<>> \/ \E i \in 1..Len(v.es) : HasEmptyArr(v.es[i])
    [] v.t = "tup" -> \E i \in 1..Len(v.es) : HasEmptyArr(v.es[i])
    [] v.t \in {"some", "ok", "err"} -> HasEmptyArr(v.x)
    [] OTHER -> FALSE

\* ---------------------------------------------------------------- concrete syntax of types and values
RECURSIVE TypeText(_)
TypeText(t) ==
  CASE t.k = "int" -> "int" [] t.k = "bool" -> "bool" [] t.k = "nil" -> "void"
    [] t.k = "str" -> "string" [] t.k = "flt" -> "float"
    [] t.k = "arr" -> "array<" \o TypeText(t.of) \o ">"
    [] t.k = "opt" -> "option<" \o TypeText(t.of) \o ">"
    [] t.k = "res" -> "result<" \o TypeText(t.ok) \o ", " \o TypeText(t.err) \o ">"
    [] t.k = "tup" -> "(" \o JoinS([i \in 1..Len(t.ts) |-> TypeText(t.ts[i])], ", ") \o ")"

RECURSIVE ValText(_)
ValText(v) ==
  CASE v.t = "int"  -> ToString(v.v)
    [] v.t = "big"  -> v.lit
    [] v.t = "bool" -> IF v.v THEN "true" ELSE "false"
    [] v.t = "nil"  -> "nil"
    [] v.t = "str"  -> StrLit(v.v)
    [] v.t = "flt"  -> LitFlt(v.n, v.e)
    [] v.t = "arr"  -> "[" \o JoinS([i \in 1..Len(v.es) |-> ValText(v.es[i])], ", ") \o "]"
    [] v.t = "tup"  -> "(" \o JoinS([i \in 1..Len(v.es) |-> ValText(v.es[i])], ", ") \o ")"
    [] v.t = "some" -> "option.some(" \o ValText(v.x) \o ")"
    [] v.t = "none" -> "option.none"
    [] v.t = "ok"   -> "result.ok(" \o ValText(v.x) \o ")"
    [] v.t = "err"  -> "result.err(" \o ValText(v.x) \o ")"

RECURSIVE TypeDepth(_)
MaxOf(S) == CHOOSE m \in S : \A x \in S : x <= m
TypeDepth(t) ==
  CASE t.k \in {"arr", "opt"} -> 1 + TypeDepth(t.of)
    [] t.k = "res" -> 1 + MaxOf({TypeDepth(t.ok), TypeDepth(t.err)})
    [] t.k = "tup" -> 1 + MaxOf({TypeDepth(t.ts[i]) : i \in 1..Len(t.ts)})
    [] OTHER -> 0

\* ---------------------------------------------------------------- the four documented routes to text
(* For a value x the program executes, in this order,
     println(x)   print(x); println("|")   println("<" .. x)   println(x .. ">")
     println(x .. x)   println(x.str())   println(ToString.str(x))
   and every route must produce the same documented text S.                 *)
RouteNames == <<"println", "print", "str..x", "x..str", "x..x", "x.str()", "ToString.str(x)">>
RouteStmts(n) ==
  << "println(" \o n \o ")",
     "print(" \o n \o ")",
     "println(\"|\")",
     "println(\"<\" .. " \o n \o ")",
     "println(" \o n \o " .. \">\")",
     "println(" \o n \o " .. " \o n \o ")",
     "println(" \o n \o ".str())",
     "println(ToString.str(" \o n \o "))" >>
RouteOut(s) ==
  s \o "\n" \o s \o "|\n" \o "<" \o s \o "\n" \o s \o ">\n" \o s \o s \o "\n" \o s \o "\n" \o s \o "\n"
=============================================================================
