----------------------------- MODULE AbraArray -----------------------------
(***************************************************************************)
(* Reference list model for Abra arrays (C26).                             *)
(*                                                                         *)
(* A configuration is a store of lists (objects never die), an environment *)
(* mapping the program variables to store addresses (two variables, or a   *)
(* variable and an element of a nested array, may alias the same list) and *)
(* the text printed so far.  Elements are integers or references to other  *)
(* lists (array<array<int>>).                                              *)
(*                                                                         *)
(* Documented behaviour transcribed (book: builtin_types.md `array<T>`,    *)
(* standard_library.md "Array methods", "Clone | Deep-copy a value"):      *)
(*   literal, x[i], x[i] = v (zero based), push, pop (returns the popped   *)
(*   last element), len, contains, find (index of first match as option),  *)
(*   array.filled(v, n) (n copies of v), clone (deep copy), for-in.        *)
(* is_empty / swap / clear / remove are only named by the prelude          *)
(* (`extend array<T>`); the model gives them their list meaning:           *)
(*   is_empty <=> len = 0; swap(i,j) exchanges positions i and j; clear    *)
(*   makes the list empty; remove(i) deletes the element at position i.    *)
(* The order of the remaining elements after `remove` is not documented    *)
(* anywhere: the model is *nondeterministic* there and allows both the     *)
(* order preserving result and the "last element fills the hole" result.   *)
(*                                                                         *)
(* Failures (C26: "stop with a runtime error rather than crashing"):       *)
(*   x[i] / x[i] = v with i outside 0..len-1  -> runtime error kind "oob"  *)
(*   pop on an empty list, swap / remove with a position outside the list  *)
(*   -> *a* runtime error (kind not fixed by the statement: "anyerr").     *)
(***************************************************************************)
EXTENDS Naturals, Integers, Sequences, FiniteSets, TLC

IV(n) == [t |-> "i", v |-> n]
RV(a) == [t |-> "r", a |-> a]

\* ---------------------------------------------------------------- syntax of operations
\* targets (array valued places)
TVar(x)    == [k |-> "var", x |-> x, i |-> 0]
TIdx(x, i) == [k |-> "idx", x |-> x, i |-> i]            \* x[i] where x : array<array<int>>
\* element / source expressions
EInt(v)       == [k |-> "int", v |-> v]
ELit(vs)      == [k |-> "lit", vs |-> vs]                 \* [v1, v2, ...] of ints
ELit2(vss)    == [k |-> "lit2", vss |-> vss]              \* [[..], [..]]
EVar(x)       == [k |-> "var", x |-> x]
EFilled(v, n) == [k |-> "filled", v |-> v, n |-> n]       \* array.filled(v, n), v an int
EFilledV(x, n) == [k |-> "filledv", x |-> x, n |-> n]     \* array.filled(x, n), x an array variable: n clones of it
EClone(T)     == [k |-> "clone", T |-> T]                 \* T.clone()
EIdx(x, i)    == [k |-> "idx", x |-> x, i |-> i]          \* x[i] used as a value (aliases the inner array)
ENone         == [k |-> "none"]

Op(op, T, i, j, E) == [op |-> op, T |-> T, i |-> i, j |-> j, E |-> E]
OAssign(x, E)   == Op("assign", TVar(x), 0, 0, E)         \* x = E
OGet(T, i)      == Op("get", T, i, 0, ENone)              \* println(T[i])
OProbe(T, i)    == Op("probe", T, i, 0, ENone)            \* { let pk = i; T[pk]; println("probed") }: the element is read and discarded
OSet(T, i, E)   == Op("set", T, i, 0, E)                  \* T[i] = E
OPush(T, E)     == Op("push", T, 0, 0, E)
OPop(T)         == Op("pop", T, 0, 0, ENone)              \* println(T.pop())
OLen(T)         == Op("len", T, 0, 0, ENone)
OIsEmpty(T)     == Op("is_empty", T, 0, 0, ENone)
OSwap(T, i, j)  == Op("swap", T, i, j, ENone)
ORemove(T, i)   == Op("remove", T, i, 0, ENone)
OClear(T)       == Op("clear", T, 0, 0, ENone)
OFind(T, E)     == Op("find", T, 0, 0, E)                 \* println(T.find(E))
OContains(T, E) == Op("contains", T, 0, 0, E)
OIter(T)        == Op("iter", T, 0, 0, ENone)             \* for e in T { println(e) }

\* ---------------------------------------------------------------- configurations
\* variables a, b : array<int>;  n, m : array<array<int>>
VarAddr == [a |-> 1, b |-> 2, n |-> 3, m |-> 4]
InitCfg == [store |-> << <<>>, <<>>, <<>>, <<>> >>, env |-> VarAddr, out |-> ""]

Alloc(c, l) == [c |-> [c EXCEPT !.store = Append(@, l)], a |-> Len(c.store) + 1]
InR(l, i) == i >= 0 /\ i < Len(l)

RECURSIVE ShowV(_, _), ShowL(_, _, _)
ShowV(c, v) == IF v.t = "i" THEN ToString(v.v)
               ELSE LET l == c.store[v.a] IN IF l = <<>> THEN "[  ]" ELSE "[ " \o ShowL(c, l, 1) \o " ]"
ShowL(c, l, i) == IF i = Len(l) THEN ShowV(c, l[i]) ELSE ShowV(c, l[i]) \o ", " \o ShowL(c, l, i + 1)

\* structural equality (prelude: Equal for int, Equal for array<T Equal>)
RECURSIVE ValEq(_, _, _)
ValEq(c, v, w) == IF v.t = "i" THEN v.v = w.v
                  ELSE LET l1 == c.store[v.a]  l2 == c.store[w.a]
                       IN Len(l1) = Len(l2) /\ \A i \in 1..Len(l1) : ValEq(c, l1[i], l2[i])

\* deep copy: fresh lists all the way down
RECURSIVE CloneV(_, _), CloneL(_, _, _, _)
CloneV(c, v) == IF v.t = "i" THEN [c |-> c, v |-> v]
                ELSE LET r == CloneL(c, c.store[v.a], 1, <<>>)
                         al == Alloc(r.c, r.l)
                     IN [c |-> al.c, v |-> RV(al.a)]
CloneL(c, l, i, acc) == IF i > Len(l) THEN [c |-> c, l |-> acc]
                        ELSE LET r == CloneV(c, l[i]) IN CloneL(r.c, l, i + 1, Append(acc, r.v))

\* whether a value reaches the same list along two paths: whether a deep copy keeps or splits such
\* internal sharing is not documented -> histories cloning such values are outside the model
RECURSIVE ReachSeq(_, _), ReachL(_, _, _)
ReachSeq(c, v) == IF v.t = "i" THEN <<>> ELSE <<v.a>> \o ReachL(c, c.store[v.a], 1)
ReachL(c, l, i) == IF i > Len(l) THEN <<>> ELSE ReachSeq(c, l[i]) \o ReachL(c, l, i + 1)
NoSharing(c, v) == LET s == ReachSeq(c, v) IN \A i, j \in 1..Len(s) : i # j => s[i] # s[j]

\* place -> address
EvalT(c, T) ==
  IF T.k = "var" THEN [err |-> "", a |-> c.env[T.x]]
  ELSE LET l == c.store[c.env[T.x]] IN
       IF InR(l, T.i) THEN [err |-> "", a |-> l[T.i + 1].a] ELSE [err |-> "oob", a |-> 0]

IntList(vs) == [i \in 1..Len(vs) |-> IV(vs[i])]
RECURSIVE AllocAll(_, _, _, _)
AllocAll(c, vss, i, acc) == IF i > Len(vss) THEN [c |-> c, l |-> acc]
                            ELSE LET al == Alloc(c, IntList(vss[i])) IN AllocAll(al.c, vss, i + 1, Append(acc, RV(al.a)))

\* expression -> [c, v, err, inm]
EvalE(c, E) ==
  CASE E.k = "int"    -> [c |-> c, v |-> IV(E.v), err |-> "", inm |-> TRUE]
    [] E.k = "lit"    -> LET al == Alloc(c, IntList(E.vs)) IN [c |-> al.c, v |-> RV(al.a), err |-> "", inm |-> TRUE]
    [] E.k = "lit2"   -> LET r == AllocAll(c, E.vss, 1, <<>>)  al == Alloc(r.c, r.l)
                         IN [c |-> al.c, v |-> RV(al.a), err |-> "", inm |-> TRUE]
    [] E.k = "var"    -> [c |-> c, v |-> RV(c.env[E.x]), err |-> "", inm |-> TRUE]
    [] E.k = "filled" -> LET al == Alloc(c, [i \in 1..E.n |-> IV(E.v)])
                         IN [c |-> al.c, v |-> RV(al.a), err |-> "", inm |-> E.n >= 0]
    [] E.k = "filledv" ->      \* `extend array<T Clone> { fn filled(x: T, n) }`: n independent deep copies of x
         LET src == RV(c.env[E.x])
             RECURSIVE Copies(_, _, _)
             Copies(cc, k, acc) == IF k = 0 THEN [c |-> cc, l |-> acc]
                                   ELSE LET r == CloneV(cc, src) IN Copies(r.c, k - 1, Append(acc, r.v))
             r == Copies(c, E.n, <<>>)
             al == Alloc(r.c, r.l)
         IN [c |-> al.c, v |-> RV(al.a), err |-> "", inm |-> E.n >= 0 /\ NoSharing(c, src)]
    [] E.k = "clone"  -> LET t == EvalT(c, E.T) IN
                         IF t.err # "" THEN [c |-> c, v |-> IV(0), err |-> t.err, inm |-> TRUE]
                         ELSE LET r == CloneV(c, RV(t.a)) IN [c |-> r.c, v |-> r.v, err |-> "", inm |-> NoSharing(c, RV(t.a))]
    [] E.k = "idx"    -> LET t == EvalT(c, TIdx(E.x, E.i)) IN
                         [c |-> c, v |-> RV(t.a), err |-> t.err, inm |-> TRUE]

\* ---------------------------------------------------------------- the operations
Res(c, pr) == {[c |-> c, err |-> "", why |-> "", pr |-> pr, inm |-> TRUE]}
Err(c, kind, why) == {[c |-> c, err |-> kind, why |-> why, pr |-> "", inm |-> TRUE]}
SetL(c, a, l) == [c EXCEPT !.store[a] = l]
ButLast(l) == SubSeq(l, 1, Len(l) - 1)

RECURSIVE FindFrom(_, _, _, _)
FindFrom(c, l, v, i) == IF i > Len(l) THEN 0 ELSE IF ValEq(c, l[i], v) THEN i ELSE FindFrom(c, l, v, i + 1)
RECURSIVE IterOut(_, _, _)
IterOut(c, l, i) == IF i > Len(l) THEN "" ELSE ShowV(c, l[i]) \o "\n" \o IterOut(c, l, i + 1)

\* remove: position i disappears; order of the rest: preserved, or last element moved into the hole
RemoveResults(l, i) == { SubSeq(l, 1, i) \o SubSeq(l, i + 2, Len(l)),
                         ButLast([l EXCEPT ![i + 1] = l[Len(l)]]) }

\* all outcomes the model allows for operation o in configuration c:
\* set of [c (new configuration), err ("" | "oob" | "anyerr"), why, pr (text printed by the operation), inm]
Outcomes(c, o) ==
  IF o.op = "assign" THEN
    LET e == EvalE(c, o.E) IN
    IF e.err # "" THEN Err(c, e.err, "index")
    ELSE {[c |-> [e.c EXCEPT !.env[o.T.x] = e.v.a], err |-> "", why |-> "", pr |-> "", inm |-> e.inm]}
  ELSE
    LET t == EvalT(c, o.T) IN
    IF t.err # "" THEN Err(c, t.err, "index")
    ELSE
    LET a == t.a
        l == c.store[a]
    IN
    CASE o.op = "get"  -> IF InR(l, o.i) THEN Res(c, ShowV(c, l[o.i + 1]) \o "\n") ELSE Err(c, "oob", "index")
      [] o.op = "probe" -> IF InR(l, o.i) THEN Res(c, "probed\n") ELSE Err(c, "oob", "index")
      [] o.op = "set"  -> LET e == EvalE(c, o.E) IN
                          IF InR(l, o.i) THEN Res(SetL(e.c, a, [l EXCEPT ![o.i + 1] = e.v]), "") ELSE Err(c, "oob", "index")
      [] o.op = "push" -> LET e == EvalE(c, o.E) IN Res(SetL(e.c, a, Append(l, e.v)), "")
      [] o.op = "pop"  -> IF l = <<>> THEN Err(c, "anyerr", "pop-empty")
                          ELSE LET c2 == SetL(c, a, ButLast(l)) IN Res(c2, ShowV(c2, l[Len(l)]) \o "\n")
      [] o.op = "len"  -> Res(c, ToString(Len(l)) \o "\n")
      [] o.op = "is_empty" -> Res(c, (IF l = <<>> THEN "true" ELSE "false") \o "\n")
      [] o.op = "swap" -> IF InR(l, o.i) /\ InR(l, o.j)
                          THEN Res(SetL(c, a, [l EXCEPT ![o.i + 1] = l[o.j + 1], ![o.j + 1] = l[o.i + 1]]), "")
                          ELSE Err(c, "anyerr", "swap-range")
      [] o.op = "remove" -> IF InR(l, o.i)
                            THEN UNION {Res(SetL(c, a, l2), "") : l2 \in RemoveResults(l, o.i)}
                            ELSE Err(c, "anyerr", "remove-range")
      [] o.op = "clear" -> Res(SetL(c, a, <<>>), "")
      [] o.op = "find" -> LET e == EvalE(c, o.E)  p == FindFrom(e.c, l, e.v, 1)
                          IN Res(e.c, (IF p = 0 THEN "none" ELSE "some(" \o ToString(p - 1) \o ")") \o "\n")
      [] o.op = "contains" -> LET e == EvalE(c, o.E)  p == FindFrom(e.c, l, e.v, 1)
                              IN Res(e.c, (IF p = 0 THEN "false" ELSE "true") \o "\n")
      [] o.op = "iter" -> Res(c, IterOut(c, l, 1))

\* observable projection printed after every operation: the listed variables
RECURSIVE Proj(_, _, _)
Proj(c, vars, i) == IF i > Len(vars) THEN "" ELSE ShowV(c, RV(c.env[vars[i]])) \o "\n" \o Proj(c, vars, i + 1)

\* one step of the (nondeterministic) model on a set of possible configurations
StepAll(cs, o, vars) ==
  LET outs == UNION {Outcomes(c, o) : c \in cs}
      good == {r \in outs : r.err = ""}
      bad  == outs \ good
  IN [cs   |-> {[r.c EXCEPT !.out = @ \o r.pr \o Proj(r.c, vars, 1)] : r \in good},
      errs |-> {r.err : r \in bad},
      whys |-> {r.why : r \in bad},
      errouts |-> {r.c.out : r \in bad},
      inm  |-> \A r \in outs : r.inm]

\* ---------------------------------------------------------------- concrete syntax
RECURSIVE JoinStr(_, _)
JoinStr(ss, sep) == IF ss = <<>> THEN "" ELSE IF Len(ss) = 1 THEN ss[1] ELSE ss[1] \o sep \o JoinStr(Tail(ss), sep)
RInts(vs) == "[" \o JoinStr([i \in 1..Len(vs) |-> ToString(vs[i])], ", ") \o "]"
RT(T) == IF T.k = "var" THEN T.x ELSE T.x \o "[" \o ToString(T.i) \o "]"
RE(E) ==
  CASE E.k = "int"    -> ToString(E.v)
    [] E.k = "lit"    -> RInts(E.vs)
    [] E.k = "lit2"   -> "[" \o JoinStr([i \in 1..Len(E.vss) |-> RInts(E.vss[i])], ", ") \o "]"
    [] E.k = "var"    -> E.x
    [] E.k = "filled" -> "array.filled(" \o ToString(E.v) \o ", " \o ToString(E.n) \o ")"
    [] E.k = "filledv" -> "array.filled(" \o E.x \o ", " \o ToString(E.n) \o ")"
    [] E.k = "clone"  -> RT(E.T) \o ".clone()"
    [] E.k = "idx"    -> E.x \o "[" \o ToString(E.i) \o "]"
ROp(o) ==
  CASE o.op = "assign"   -> o.T.x \o " = " \o RE(o.E)
    [] o.op = "get"      -> "println(" \o RT(o.T) \o "[" \o ToString(o.i) \o "])"
    [] o.op = "probe"    -> "if true {\nlet pk = " \o ToString(o.i) \o "\n" \o RT(o.T) \o "[pk]\nprintln(\"probed\")\n}"
    [] o.op = "set"      -> RT(o.T) \o "[" \o ToString(o.i) \o "] = " \o RE(o.E)
    [] o.op = "push"     -> RT(o.T) \o ".push(" \o RE(o.E) \o ")"
    [] o.op = "pop"      -> "println(" \o RT(o.T) \o ".pop())"
    [] o.op = "len"      -> "println(" \o RT(o.T) \o ".len())"
    [] o.op = "is_empty" -> "println(" \o RT(o.T) \o ".is_empty())"
    [] o.op = "swap"     -> RT(o.T) \o ".swap(" \o ToString(o.i) \o ", " \o ToString(o.j) \o ")"
    [] o.op = "remove"   -> RT(o.T) \o ".remove(" \o ToString(o.i) \o ")"
    [] o.op = "clear"    -> RT(o.T) \o ".clear()"
    [] o.op = "find"     -> "println(" \o RT(o.T) \o ".find(" \o RE(o.E) \o "))"
    [] o.op = "contains" -> "println(" \o RT(o.T) \o ".contains(" \o RE(o.E) \o "))"
    [] o.op = "iter"     -> "for e in " \o RT(o.T) \o " { println(e) }"

Decl(x) == IF x \in {"a", "b"} THEN "var " \o x \o ": array<int> = []" ELSE "var " \o x \o ": array<array<int>> = []"
ProjText(vars) == JoinStr([i \in 1..Len(vars) |-> "println(" \o vars[i] \o ")"], "\n")
\* program text of a history: declarations, then per operation its statement and the projection
ProgText(ops, vars) ==
  JoinStr([i \in 1..Len(vars) |-> Decl(vars[i])], "\n") \o "\n" \o
  JoinStr([i \in 1..Len(ops) |-> ROp(ops[i]) \o "\n" \o ProjText(vars)], "\n") \o "\n"
=============================================================================
