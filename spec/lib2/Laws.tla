----------------------------- MODULE Laws -----------------------------
(***************************************************************************)
(* C24: built-in equality, ordering and hashing are lawful.                *)
(*                                                                         *)
(* Part 1 - the LAWS, as predicates over an observed relation table        *)
(*   R = [eq, ne, lt, le, gt, ge |-> N x N booleans], hv/hw = hashes:      *)
(*   == is an equivalence, != its negation, < <= > >= one total order      *)
(*   consistent with ==, equal values have equal hashes.  The laws need no *)
(*   knowledge of the values: they are checked on whatever was observed.   *)
(*                                                                         *)
(* Part 2 - the EXPECTED truth values where the language reference fixes   *)
(*   them: ints by numeric value, bool false < true, void (one value),     *)
(*   strings lexicographically (operators.md), floats by numeric value,    *)
(*   tuples componentwise / lexicographically (builtin_types.md: "the      *)
(*   prelude provides equality, comparison, hashing for tuples up to size  *)
(*   4"), arrays equal iff same length and equal elements (arrays have no  *)
(*   Ord).  Not fixed by the reference, hence only subject to the laws     *)
(*   (Cmp = "unk"): NaN against anything else, -0.0 against 0.0.           *)
(*                                                                         *)
(* Values: [t |-> "bool", v] | [t |-> "nil"] | [t |-> "int", lit] (decimal *)
(*   spelling: 64-bit values do not fit TLC integers) | [t |-> "flt", cls, *)
(*   n, e] (cls "fin": n/2^e; "nzero" -0.0; "pinf"/"ninf"; "nan_a"/"nan_b" *)
(*   two different NaNs) | [t |-> "str", v] | [t |-> "tup", es]            *)
(*   | [t |-> "arr", es]                                                   *)
(* Types:  [k |-> "bool"|"nil"|"int"|"flt"|"str"] | [k |-> "tup", ts]      *)
(*   | [k |-> "arr", of]                                                   *)
(***************************************************************************)
EXTENDS Render

\* ================================================================ Part 1: the laws
OpNames == <<"==", "!=", "<", "<=", ">", ">=">>
Get(R, op, i, j) ==
  CASE op = "==" -> R.eq[i][j] [] op = "!=" -> R.ne[i][j] [] op = "<" -> R.lt[i][j]
    [] op = "<=" -> R.le[i][j] [] op = ">" -> R.gt[i][j] [] op = ">=" -> R.ge[i][j]

\* equality (every comparable type)
EqRefl(R, i)        == R.eq[i][i]
EqSym(R, i, j)      == R.eq[i][j] <=> R.eq[j][i]
EqTrans(R, i, j, k) == (R.eq[i][j] /\ R.eq[j][k]) => R.eq[i][k]
NeNeg(R, i, j)      == R.ne[i][j] <=> ~R.eq[i][j]
\* order (types with Ord)
LeNotLt(R, i, j)    == R.le[i][j] <=> ~R.lt[j][i]          \* x <= y exactly when not y < x
GeSwap(R, i, j)     == R.ge[i][j] <=> R.le[j][i]           \* x >= y exactly when y <= x
GtSwap(R, i, j)     == R.gt[i][j] <=> R.lt[j][i]           \* x > y exactly when y < x
EqOrd(R, i, j)      == R.eq[i][j] <=> (R.le[i][j] /\ R.le[j][i])   \* the order is consistent with ==
LeTotal(R, i, j)    == R.le[i][j] \/ R.le[j][i]
LeTrans(R, i, j, k) == (R.le[i][j] /\ R.le[j][k]) => R.le[i][k]
\* hashing (types with Hash): hv / hw are the hashes of two separately built copies of the values
HashLaw(R, hv, hw, i, j) == R.eq[i][j] => hv[i] = hw[j]

EqLaws2  == <<"EqSym", "NeNeg">>
OrdLaws2 == <<"LeNotLt", "GeSwap", "GtSwap", "EqOrd", "LeTotal">>
Law2(name, R, i, j) ==
  CASE name = "EqSym" -> EqSym(R, i, j) [] name = "NeNeg" -> NeNeg(R, i, j)
    [] name = "LeNotLt" -> LeNotLt(R, i, j) [] name = "GeSwap" -> GeSwap(R, i, j) [] name = "GtSwap" -> GtSwap(R, i, j)
    [] name = "EqOrd" -> EqOrd(R, i, j) [] name = "LeTotal" -> LeTotal(R, i, j)
Law3(name, R, i, j, k) == IF name = "EqTrans" THEN EqTrans(R, i, j, k) ELSE LeTrans(R, i, j, k)

\* ================================================================ Part 2: expected truth values
TBool == [k |-> "bool"]  TNil == [k |-> "nil"]  TInt == [k |-> "int"]  TFlt == [k |-> "flt"]  TStr == [k |-> "str"]
TTup(ts) == [k |-> "tup", ts |-> ts]
TArr(t) == [k |-> "arr", of |-> t]

VBool(b) == [t |-> "bool", v |-> b]
VNil == [t |-> "nil"]
VInt(lit) == [t |-> "int", lit |-> lit]
VFlt(n, e) == [t |-> "flt", cls |-> "fin", n |-> n, e |-> e]
VFltS(cls) == [t |-> "flt", cls |-> cls, n |-> 0, e |-> 0]
VStr(s) == [t |-> "str", v |-> s]
VTup(es) == [t |-> "tup", es |-> es]
VArr(es) == [t |-> "arr", es |-> es]

RECURSIVE HasOrd(_), HasHash(_)
HasOrd(ty)  == CASE ty.k = "tup" -> \A i \in 1..Len(ty.ts) : HasOrd(ty.ts[i]) [] ty.k = "arr" -> FALSE [] OTHER -> TRUE
HasHash(ty) == CASE ty.k = "tup" -> \A i \in 1..Len(ty.ts) : HasHash(ty.ts[i]) [] ty.k = "arr" -> HasHash(ty.of)
                 [] ty.k = "flt" -> FALSE [] OTHER -> TRUE        \* the prelude has no Hash for float

\* ---- ints: canonical decimal spellings ("-"? digits, no leading zeros)
DigitMap == ("0" :> 0) @@ ("1" :> 1) @@ ("2" :> 2) @@ ("3" :> 3) @@ ("4" :> 4) @@ ("5" :> 5) @@ ("6" :> 6) @@
            ("7" :> 7) @@ ("8" :> 8) @@ ("9" :> 9)
RECURSIVE DigitsCmp(_, _, _)
DigitsCmp(a, b, i) ==      \* same length
  IF i > Len(a) THEN "eq"
  ELSE LET x == DigitMap[SubSeq(a, i, i)]  y == DigitMap[SubSeq(b, i, i)]
       IN IF x < y THEN "lt" ELSE IF x > y THEN "gt" ELSE DigitsCmp(a, b, i + 1)
MagCmp(a, b) == IF Len(a) < Len(b) THEN "lt" ELSE IF Len(a) > Len(b) THEN "gt" ELSE DigitsCmp(a, b, 1)
Flip(r) == CASE r = "lt" -> "gt" [] r = "gt" -> "lt" [] OTHER -> r
DecCmp(a, b) ==
  LET na == SubSeq(a, 1, 1) = "-"  nb == SubSeq(b, 1, 1) = "-" IN
  IF na /\ ~nb THEN "lt" ELSE IF ~na /\ nb THEN "gt"
  ELSE IF na THEN Flip(MagCmp(SubSeq(a, 2, Len(a)), SubSeq(b, 2, Len(b)))) ELSE MagCmp(a, b)

\* ---- strings: lexicographic by bytes; Alphabet lists the characters used by the checks in ascending ASCII order
Alphabet == <<" ", "0", "9", "A", "B", "Z", "_", "a", "b", "z", "~">>
CharRank(ch) == CHOOSE r \in 1..Len(Alphabet) : Alphabet[r] = ch
RECURSIVE StrCmp(_, _, _)
StrCmp(a, b, i) ==
  IF i > Len(a) /\ i > Len(b) THEN "eq"
  ELSE IF i > Len(a) THEN "lt" ELSE IF i > Len(b) THEN "gt"
  ELSE LET x == CharRank(SubSeq(a, i, i))  y == CharRank(SubSeq(b, i, i))
       IN IF x < y THEN "lt" ELSE IF x > y THEN "gt" ELSE StrCmp(a, b, i + 1)

\* ---- floats
IsNan(a)  == a.cls \in {"nan_a", "nan_b"}
IsZero(a) == a.cls = "nzero" \/ (a.cls = "fin" /\ a.n = 0)
AsFin(a)  == IF a.cls = "nzero" THEN FltV(0, 0) ELSE FltV(a.n, a.e)
FCmp(a, b) ==
  IF a = b THEN "eq"                          \* the same value (also the same NaN): == is reflexive
  ELSE IF IsNan(a) \/ IsNan(b) THEN "unk"
  ELSE IF IsZero(a) /\ IsZero(b) THEN (IF a.cls = b.cls THEN "eq" ELSE "unk")
  ELSE IF a.cls = b.cls /\ a.cls \in {"pinf", "ninf"} THEN "eq"
  ELSE IF a.cls = "ninf" \/ b.cls = "pinf" THEN "lt"
  ELSE IF a.cls = "pinf" \/ b.cls = "ninf" THEN "gt"
  ELSE LET s == FltCmp(AsFin(a), AsFin(b)) IN IF s < 0 THEN "lt" ELSE IF s > 0 THEN "gt" ELSE "eq"

\* ---- all values.  Result: "lt" | "eq" | "gt" | "ne" (different, no order: arrays) | "unk" (not fixed by the reference)
RECURSIVE Cmp(_, _), LexCmp(_, _, _), ArrDiff(_, _, _)
Cmp(a, b) ==
  CASE a.t = "bool" -> IF a.v = b.v THEN "eq" ELSE IF b.v THEN "lt" ELSE "gt"       \* false < true
    [] a.t = "nil"  -> "eq"
    [] a.t = "int"  -> DecCmp(a.lit, b.lit)
    [] a.t = "flt"  -> FCmp(a, b)
    [] a.t = "str"  -> StrCmp(a.v, b.v, 1)
    [] a.t = "tup"  -> LexCmp(a.es, b.es, 1)
    [] a.t = "arr"  -> IF Len(a.es) # Len(b.es) THEN "ne" ELSE ArrDiff(a.es, b.es, 1)
\* the first component that is not "eq" decides
LexCmp(as, bs, i) == IF i > Len(as) THEN "eq"
                     ELSE LET r == Cmp(as[i], bs[i]) IN IF r = "eq" THEN LexCmp(as, bs, i + 1) ELSE r
ArrDiff(as, bs, i) == IF i > Len(as) THEN "eq"
                      ELSE LET r == Cmp(as[i], bs[i]) IN
                           IF r = "eq" THEN ArrDiff(as, bs, i + 1)
                           ELSE IF r = "unk" THEN (IF \E j \in i + 1..Len(as) : Cmp(as[j], bs[j]) \in {"lt", "gt", "ne"} THEN "ne" ELSE "unk")
                           ELSE "ne"

\* expected value of `a op b`: "T", "F" or "?" (not fixed)
Expected(op, r) ==
  IF r = "unk" THEN "?"
  ELSE CASE op = "==" -> IF r = "eq" THEN "T" ELSE "F"
         [] op = "!=" -> IF r = "eq" THEN "F" ELSE "T"
         [] op = "<"  -> IF r = "ne" THEN "?" ELSE IF r = "lt" THEN "T" ELSE "F"
         [] op = "<=" -> IF r = "ne" THEN "?" ELSE IF r \in {"lt", "eq"} THEN "T" ELSE "F"
         [] op = ">"  -> IF r = "ne" THEN "?" ELSE IF r = "gt" THEN "T" ELSE "F"
         [] op = ">=" -> IF r = "ne" THEN "?" ELSE IF r \in {"gt", "eq"} THEN "T" ELSE "F"

\* ---- which scalar comparison decides a pair (used to name the class of a failing input)
\* tuples: the first component that differs, or the last one when all are equal (that is the component whose
\* result the lexicographic comparison returns); arrays: "array"
RECURSIVE Decider(_, _), LexDecider(_, _, _)
Decider(a, b) ==
  CASE a.t = "tup" -> LexDecider(a.es, b.es, 1)
    [] a.t = "arr" -> "array"
    [] a.t = "flt" -> "float" [] a.t = "str" -> "string" [] a.t = "nil" -> "void"
    [] OTHER -> a.t
LexDecider(as, bs, i) == IF i = Len(as) \/ Cmp(as[i], bs[i]) # "eq" THEN Decider(as[i], bs[i]) ELSE LexDecider(as, bs, i + 1)

\* ================================================================ concrete syntax
RECURSIVE TypeText(_), ValText(_)
TypeText(t) ==
  CASE t.k = "int" -> "int" [] t.k = "bool" -> "bool" [] t.k = "nil" -> "void" [] t.k = "str" -> "string" [] t.k = "flt" -> "float"
    [] t.k = "arr" -> "array<" \o TypeText(t.of) \o ">"
    [] t.k = "tup" -> "(" \o JoinS([i \in 1..Len(t.ts) |-> TypeText(t.ts[i])], ", ") \o ")"
\* special floats are not literals: the program binds them to these names first (FloatPrelude)
FloatPrelude == << "let fm1 = -1.0", "let ften = 10.0", "let fnan_a = 0.0 / 0.0", "let fnan_b = fm1.sqrt()",
                   "let fpinf = ften.pow(400.0)", "let fninf = 0.0 - fpinf" >>
ValText(v) ==
  CASE v.t = "bool" -> IF v.v THEN "true" ELSE "false"
    [] v.t = "nil"  -> "nil"
    [] v.t = "int"  -> v.lit
    [] v.t = "flt"  -> (CASE v.cls = "fin" -> LitFlt(v.n, v.e) [] v.cls = "nzero" -> "-0.0" [] OTHER -> "f" \o v.cls)
    [] v.t = "str"  -> StrLit(v.v)
    [] v.t = "tup"  -> "(" \o JoinS([i \in 1..Len(v.es) |-> ValText(v.es[i])], ", ") \o ")"
    [] v.t = "arr"  -> "[" \o JoinS([i \in 1..Len(v.es) |-> ValText(v.es[i])], ", ") \o "]"
RECURSIVE HasSpecialFloat(_)
HasSpecialFloat(v) ==
  CASE v.t = "flt" -> v.cls \notin {"fin", "nzero"}
    [] v.t \in {"tup", "arr"} -> \E i \in 1..Len(v.es) : HasSpecialFloat(v.es[i])
    [] OTHER -> FALSE
=============================================================================
