----------------------------- MODULE AbraMap -----------------------------
(***************************************************************************)
(* Reference dictionary / set model for core/map and core/set (C27).       *)
(*                                                                         *)
(* The model is a function from keys to values (map) and a set of keys     *)
(* (set); insertion order, hashing, buckets, resizing and slot reuse do    *)
(* not exist in it.  Keys are opaque tokens: position i of the family's    *)
(* key sequence stands for the Abra expression keys[i] (its text); two     *)
(* different positions denote keys that are different under the key type's *)
(* Equal (the families below are built that way).  Values are small ints.  *)
(*                                                                         *)
(* standard_library.md: "core/map: Hash map ... Keys must implement Hash   *)
(* and Equal.  Bracket syntax (m[k], m[k] = v) works in addition to        *)
(* insert/get", try_get returns option; "core/set: Hash set built on       *)
(* core/map ... membership".  API names from modules/core/map.abra and     *)
(* set.abra: new, len, insert, get, try_get, contains, remove (-> bool).   *)
(*                                                                         *)
(* get / m[k] of an absent key: a dictionary has no value to return; the   *)
(* model demands *a* runtime error (kind not fixed: "anyerr").             *)
(***************************************************************************)
EXTENDS Naturals, Integers, Sequences, FiniteSets, TLC

\* ---------------------------------------------------------------- operations  [op, k (key position), v]
MOp(op, k, v) == [op |-> op, k |-> k, v |-> v]
MapOps == {"insert", "iset", "get", "iget", "try_get", "contains", "remove", "len"}
SetOps == {"sinsert", "scontains", "sremove", "slen"}

\* ---------------------------------------------------------------- model
EmptyCfg == [m |-> <<>>, s |-> {}, out |-> ""]
Put(f, k, v) == [x \in (DOMAIN f) \cup {k} |-> IF x = k THEN v ELSE f[x]]
Del(f, k) == [x \in (DOMAIN f) \ {k} |-> f[x]]
Has(f, k) == k \in DOMAIN f
BoolStr(b) == IF b THEN "true" ELSE "false"
OptStr(f, k) == IF Has(f, k) THEN "some(" \o ToString(f[k]) \o ")" ELSE "none"

Ok(c, pr) == [c |-> c, err |-> "", why |-> "", pr |-> pr]
\* result of one operation: new configuration, error ("" = none), text the operation's statement prints
MStep(c, o) ==
  CASE o.op \in {"insert", "iset"} -> Ok([c EXCEPT !.m = Put(@, o.k, o.v)], "")
    [] o.op \in {"get", "iget"}    -> IF Has(c.m, o.k) THEN Ok(c, ToString(c.m[o.k]) \o "\n")
                                      ELSE [c |-> c, err |-> "anyerr", why |-> "get-absent", pr |-> ""]
    [] o.op = "try_get"   -> Ok(c, OptStr(c.m, o.k) \o "\n")
    [] o.op = "contains"  -> Ok(c, BoolStr(Has(c.m, o.k)) \o "\n")
    [] o.op = "remove"    -> Ok([c EXCEPT !.m = Del(@, o.k)], BoolStr(Has(c.m, o.k)) \o "\n")
    [] o.op = "len"       -> Ok(c, ToString(Cardinality(DOMAIN c.m)) \o "\n")
    [] o.op = "sinsert"   -> Ok([c EXCEPT !.s = @ \cup {o.k}], "")
    [] o.op = "scontains" -> Ok(c, BoolStr(o.k \in c.s) \o "\n")
    [] o.op = "sremove"   -> Ok([c EXCEPT !.s = @ \ {o.k}], BoolStr(o.k \in c.s) \o "\n")
    [] o.op = "slen"      -> Ok(c, ToString(Cardinality(c.s)) \o "\n")

\* observable projection over nk keys: one line
\*   m <len> <try_get k1> .. <try_get kn> | <contains k1> .. | s <len> <contains k1> ..
RECURSIVE Cat(_, _, _)
Cat(F(_), i, n) == IF i > n THEN "" ELSE " " \o F(i) \o Cat(F, i + 1, n)
ProjLine(c, nk) ==
  LET tg(i) == OptStr(c.m, i)
      ct(i) == BoolStr(Has(c.m, i))
      sc(i) == BoolStr(i \in c.s)
  IN "m " \o ToString(Cardinality(DOMAIN c.m)) \o Cat(tg, 1, nk) \o " |" \o Cat(ct, 1, nk) \o
     " | s " \o ToString(Cardinality(c.s)) \o Cat(sc, 1, nk) \o "\n"

\* apply o, print what the statement prints, then the projection
MStepP(c, o, nk) ==
  LET r == MStep(c, o) IN
  IF r.err # "" THEN r ELSE [r EXCEPT !.c.out = @ \o r.pr \o ProjLine(r.c, nk)]

\* application without projection (the fixed prefix that fills the table before the explored history starts;
\* its operations never fail): only what the statements themselves print is recorded
RECURSIVE ApplyAll(_, _, _)
ApplyAll(c, ops, i) == IF i > Len(ops) THEN c
                       ELSE LET r == MStep(c, ops[i]) IN ApplyAll([r.c EXCEPT !.out = @ \o r.pr], ops, i + 1)

\* ---------------------------------------------------------------- key families
\* [name, kt: key type, decl: declarations, keys: texts of pairwise different keys]
KeyDecl(hashBody) == <<"type Key = {", "  id: int", "}", "implement Hash for Key {", "  fn hash(k) = " \o hashBody, "}",
                       "implement Equal for Key {", "  fn equal(x, y) = x.id == y.id", "}">>
KeyTexts(n) == [i \in 1..n |-> "Key(" \o ToString(i) \o ")"]
IntTexts(vs) == [i \in 1..Len(vs) |-> ToString(vs[i])]
MINT == "-9223372036854775808"   MIN1 == "-9223372036854775807"
MAXT == "9223372036854775807"    MAX1 == "9223372036854775806"

\* small ints: 0, 4, -4, 8, 16, 12 ... share a bucket in tables of 4 / 8 slots, |-4| = 4
FamSmall == [name |-> "small", kt |-> "int", decl |-> <<>>,
             keys |-> IntTexts(<<0, 4, -4, 1, 8, 5, 16, -8, 2, 12, 3, -1, 20, 6, 7, 9, 32, 10, 11, 13>>)]
\* every key has the same hash: one collision chain
FamConst == [name |-> "const", kt |-> "Key", decl |-> KeyDecl("7"), keys |-> KeyTexts(20)]
\* three hash values -1, 0, 1 (negative hashes, partial collisions)
FamMod   == [name |-> "mod", kt |-> "Key", decl |-> KeyDecl("k.id % 3 - 1"), keys |-> KeyTexts(20)]
\* 64 bit boundary keys except MIN
FamBound == [name |-> "bound", kt |-> "int", decl |-> <<>>,
             keys |-> <<MAXT, MIN1, MAX1, "-1", "0", "1", "-9223372036854775806", "4611686018427387904", "-4611686018427387904",
                        "4294967296", "-4294967296", "2147483647", "-2147483648", "9223372036854775805", "2", "-2">>]
\* the same with MIN first
FamMin   == [name |-> "min", kt |-> "int", decl |-> <<>>, keys |-> <<MINT, MAXT, MIN1, "0", "-1", "1", "4", "8", "2", "3", "5", "6">>]
\* strings (FNV-1a hashes of either sign)
FamStr   == [name |-> "str", kt |-> "string", decl |-> <<>>,
             keys |-> <<"\"a\"", "\"b\"", "\"\"", "\"ab\"", "\"ba\"", "\"A\"", "\"aa\"", "\"c\"", "\" \"", "\"abc\"", "\"0\"", "\"1\"",
                        "\"key\"", "\"d\"", "\"e\"", "\"f\"">>]

\* ---------------------------------------------------------------- concrete syntax
RECURSIVE JoinStr(_, _)
JoinStr(ss, sep) == IF ss = <<>> THEN "" ELSE IF Len(ss) = 1 THEN ss[1] ELSE ss[1] \o sep \o JoinStr(Tail(ss), sep)

ROp(o, keys) ==
  LET k == keys[o.k]  v == ToString(o.v) IN
  CASE o.op = "insert"    -> "m.insert(" \o k \o ", " \o v \o ")"
    [] o.op = "iset"      -> "m[" \o k \o "] = " \o v
    [] o.op = "get"       -> "println(m.get(" \o k \o "))"
    [] o.op = "iget"      -> "println(m[" \o k \o "])"
    [] o.op = "try_get"   -> "println(m.try_get(" \o k \o "))"
    [] o.op = "contains"  -> "println(m.contains(" \o k \o "))"
    [] o.op = "remove"    -> "println(m.remove(" \o k \o "))"
    [] o.op = "len"       -> "println(m.len())"
    [] o.op = "sinsert"   -> "s.insert(" \o k \o ")"
    [] o.op = "scontains" -> "println(s.contains(" \o k \o "))"
    [] o.op = "sremove"   -> "println(s.remove(" \o k \o "))"
    [] o.op = "slen"      -> "println(s.len())"

\* the program-side projection: prints exactly ProjLine
ShowFn(fam, nk) ==
  <<"fn show(m: map<" \o fam.kt \o ", int>, s: set<" \o fam.kt \o ">) {",
    "  let ks = [" \o JoinStr(SubSeq(fam.keys, 1, nk), ", ") \o "]",
    "  print(\"m \" .. m.len())",
    "  for k in ks { print(\" \" .. m.try_get(k)) }",
    "  print(\" |\")",
    "  for k in ks { print(\" \" .. m.contains(k)) }",
    "  print(\" | s \" .. s.len())",
    "  for k in ks { print(\" \" .. s.contains(k)) }",
    "  println(\"\")",
    "}">>

\* program: imports, key type, show, the two containers, the silent prefix, then each operation followed by show
ProgText(fam, nk, prefix, ops) ==
  JoinStr(<<"use core/map", "use core/set">> \o fam.decl \o ShowFn(fam, nk) \o
          <<"let m: map<" \o fam.kt \o ", int> = map.new()", "let s: set<" \o fam.kt \o "> = set.new()">> \o
          [i \in 1..Len(prefix) |-> ROp(prefix[i], fam.keys)] \o <<"show(m, s)">> \o
          [i \in 1..2 * Len(ops) |-> IF i % 2 = 1 THEN ROp(ops[(i + 1) \div 2], fam.keys) ELSE "show(m, s)"],
          "\n") \o "\n"
=============================================================================
